---- MODULE MC_KanalL2Hist ----
EXTENDS KanalL2Hist
WkSet == {1, 2}
====
