---------------------------- MODULE KanalL2Hist ----------------------------
(***************************************************************************)
(* L2 |= L1 and L2 |= L0 on generated behaviours.  Kanal.tla (the          *)
(* implementation-shaped specification) is run by TLC in simulation mode    *)
(* with a history variable that records, for every step, what an observer  *)
(* of the public API would see: which call starts, which result a call     *)
(* returns, which messages are destroyed and which wakers are woken in     *)
(* that step.  tools/l2l1.py turns every finished behaviour into an API     *)
(* history in the harness format and validates it with KanalAtomicTrace    *)
(* (is every behaviour of L2 linearizable to the ideal channel?) and with  *)
(* the L0 monitors of KanalHistory.  This is the sampled counterpart of a  *)
(* refinement proof L2 => L1: a rejection is a specification-level         *)
(* inconsistency (one of the two models is wrong), never a verdict about   *)
(* the code.                                                               *)
(***************************************************************************)
EXTENDS Kanal, Json, SequencesExt

VARIABLE tr
hvars == <<vars, tr>>

Newly(f, g) == SetToSeq({m \in DOMAIN g : Cnt(g, m) > Cnt(f, m)})

StepRec(p) ==
  [p |-> p, pc |-> L[p].pc, pcn |-> L'[p].pc, now |-> now,
   kind |-> L'[p].kind, msg |-> L'[p].msg, d |-> L'[p].dl,
   res |-> L[p].res, val |-> L[p].val, vec |-> L[p].vec, cnt |-> L[p].cnt,
   ctx |-> L[p].ctx, ctxn |-> L'[p].ctx, w |-> L'[p].curw, fst |-> L[p].fst,
   dd |-> Newly(G.dropped, G'.dropped),
   wk |-> IF L[p].pc = "ka_wake" THEN L[p].wtmp ELSE <<>>]

HInit == Init /\ tr = <<>>
HStep(p) == Step(p) /\ tr' = Append(tr, StepRec(p))
HTick == Tick /\ UNCHANGED tr
HNext == HTick \/ \E p \in Procs : HStep(p)
HSpec == HInit /\ [][HNext]_hvars

Quiet == \A p \in Procs : L[p].pc \in {"idle", "gone"} \/ Blocked(p) \/ L[p].pc = "f_idle"
Finished == Quiet /\ \A p \in Procs : (L[p].pc = "idle" => L[p].opn = MaxOps \/ L[p].hs = 0)
PrintHist == Finished =>
   PrintT(<<"L2HIST", ToJson([tr |-> tr, cap |-> Cap, left |-> C.queue,
                               sc |-> Cardinality(Senders), rc |-> Cardinality(Receivers),
                               blocked |-> SetToSeq({p \in Procs : L[p].pc \notin {"idle", "gone"}})])>>)
=============================================================================
