SPECIFICATION SSpec
CONSTANTS
  KS = {0, 1, 2, 3, 4, 5, 6, 11, 12, 13, 27, 28, 29, 30, 76, 77, 100, 101, 172, 173, 200, 500, 1000, 5000}
  SpinCap = 64
INVARIANTS ChecksOK NeverIdle
PROPERTY Terminates
CHECK_DEADLOCK FALSE
