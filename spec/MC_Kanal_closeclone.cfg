SPECIFICATION Spec
CONSTANTS
  Senders = {s1}
  Receivers = {r1}
  Closers = {}
  Cap = 1
  MaxOps = 3
  SpinMax = 1
  MaxSpur = 1
  MaxWaits = 2
  SMenu = {"try_send", "send", "clone", "drop"}
  RMenu = {"close", "clone", "try_recv", "drop"}
  Wk <- Wk1
  MaxNow = 0
  FIX = TRUE
INVARIANTS Once CapOK WaitShape ListedAreArmed ClosedShape DisconnectShape NoAccessToDeadSignal LatestWoken TimeoutNotEarly TryNeverWaits LockHolderRuns NoStuck NoLeak PerProducerFifo Fifo FifoNow
CHECK_DEADLOCK FALSE
