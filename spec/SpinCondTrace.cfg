SPECIFICATION TSpec
CONSTANTS
  KS = {0}
  SpinCap = 1073741824
CONSTRAINT Track
INVARIANT TraceInv
POSTCONDITION Post
CHECK_DEADLOCK FALSE
