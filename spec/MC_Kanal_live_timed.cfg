SPECIFICATION FairSpec
CONSTANTS
  Senders = {s1}
  Receivers = {r1}
  Closers = {}
  Cap = 1
  MaxOps = 2
  SpinMax = 1
  MaxSpur = 1
  MaxWaits = 2
  SMenu = {"send_to", "send"}
  RMenu = {"recv_to", "close"}
  Wk <- Wk1
  MaxNow = 2
  FIX = TRUE
INVARIANTS DisconnectShape NoStuck
PROPERTIES Completes ReleasedReturns
CHECK_DEADLOCK FALSE
