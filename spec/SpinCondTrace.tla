--------------------------- MODULE SpinCondTrace ---------------------------
(* Impl -> spec for the back-off loop (C17): the real spin_cond of src/backoff.rs (re-exported under cfg(kanal_verif)) is run
   by the harness with a scripted condition (false K times, then true; K up to several million, reported parallelism 1 and
   16).  Its observable events -- the parallelism load, the random draw of every yield_now(), every sleep(0), every
   sleep(1 ms), every OS yield, and the return with the number of condition checks made -- must be exactly the event
   sequence of SpinCond.tla for that K: same rounds, same burst sizes (implied by where the return falls), return at the
   first true check. *)
EXTENDS SpinCond, Sequences, Json, IOUtils
Rec == ndJsonDeserialize(IOEnv.TRACE)
VARIABLE j
E == Rec[j]
InRange == j <= Len(Rec)
Adv == j' = j + 1
TInit == j = 1 /\ pc = "off" /\ k = 0 /\ par = 16 /\ calls = 0 /\ spins = 8 /\ i = 0
TReset == InRange /\ E.k = "reset" /\ Adv /\ pc' = "off" /\ UNCHANGED <<k, par, calls, spins, i>>
TBegin == /\ InRange /\ E.k = "B" /\ E.op = "spin_cond" /\ pc = "off" /\ Adv
          /\ k' = E.K /\ calls' = 1 /\ spins' = 8 /\ i' = 0 /\ pc' = "par" /\ UNCHANGED par
TPar == /\ InRange /\ E.k = "usize_load" /\ pc = "par" /\ Adv
        /\ par' = IF E.r = 1 THEN 1 ELSE 16
        /\ pc' = IF k = 0 THEN "ret" ELSE IF E.r = 1 THEN "P1" ELSE "A"
        /\ UNCHANGED <<k, calls, spins, i>>
TShort == ShortPhase /\ UNCHANGED j                                   \* not observable
TRound == InRange /\ E.k = "a8_rmw" /\ Adv /\ RoundYield
TSleep0 == InRange /\ E.k = "yield" /\ E.a = 2 /\ E.b = 0 /\ Adv /\ (Sleep0a \/ Sleep0b)
TSleep1 == InRange /\ E.k = "yield" /\ E.a = 2 /\ E.b = 1048576 /\ Adv /\ Sleep1ms
TOsYield == InRange /\ E.k = "yield" /\ E.a = 1 /\ Adv /\ OsYield
TEnd == /\ InRange /\ E.k = "E" /\ pc = "ret" /\ E.calls = calls /\ calls = k + 1 /\ Adv
        /\ pc' = "off" /\ UNCHANGED <<k, par, calls, spins, i>>
SkipKinds == {"start", "finish", "phase", "end", "point", "barrier"}
TSkip == InRange /\ E.k \in SkipKinds /\ Adv /\ UNCHANGED svars
TNext == TReset \/ TBegin \/ TPar \/ TShort \/ TRound \/ TSleep0 \/ TSleep1 \/ TOsYield \/ TEnd \/ TSkip
TSpec == TInit /\ [][TNext]_<<svars, j>>
TraceInv == NeverIdle
Track == /\ TLCSet(2, IF j > TLCGet(2) THEN j ELSE TLCGet(2))
         /\ (j > Len(Rec) => TLCSet("exit", TRUE))
ASSUME TLCSet(2, 0)
Post == IF TLCGet(2) > Len(Rec) THEN TRUE
        ELSE Print(<<"REJECTED-AT", TLCGet(2), Rec[TLCGet(2)]>>, FALSE)
=============================================================================
