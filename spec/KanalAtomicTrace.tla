-------------------------- MODULE KanalAtomicTrace --------------------------
(***************************************************************************)
(* Impl -> spec: validates API histories recorded from the real kanal      *)
(* (harness `kh run --hist`) against the ideal channel KanalAtomic.        *)
(* Begin / End / Drop / Wake events are consumed from the trace; the       *)
(* linearization points (Lin, LinTimeout) are internal steps TLC searches  *)
(* for.  Many executions are concatenated; an "X" record re-initialises    *)
(* the model, a "Z" record ends an execution with the quiescence checks.   *)
(* Acceptance: the search reaches the end of the file (register 2 holds    *)
(* the furthest position any explaining path reached).                     *)
(***************************************************************************)
EXTENDS KanalAtomic, Json, IOUtils

Rec == ndJsonDeserialize(IOEnv.TRACE)
VARIABLE i
tvars == <<lvars, i>>

E == Rec[i]
InRange == i <= Len(Rec)
Msg(m) == IF cfg.tagged THEN m ELSE 0

TInit == /\ i = 1 /\ LInit(0, 0, 0, TRUE, TRUE)

EvX == /\ InRange /\ E.e = "X"
       /\ ch' = [buf |-> <<>>, ws |-> <<>>, wr |-> <<>>, sc |-> E.sc, rc |-> E.rc, cap |-> E.cap]
       /\ wt' = <<>> /\ F' = <<>> /\ pw' = <<>>
       /\ c' = [p \in Procs |-> Idle] /\ held' = [p \in Procs |-> <<>>]
       /\ cfg' = [drops |-> E.drops, tagged |-> E.tagged]
       /\ i' = i + 1

NewCall(e) ==
  [o |-> e.o, op |-> e.op, sd |-> e.sd, m |-> Msg(e.m), d |-> e.d, f |-> e.f, w |-> e.w,
   pre |-> [k \in 1..Len(e.pv) |-> Msg(e.pv[k])], none |-> e.none,
   st |-> "inv", r |-> "", v |-> 0, vs |-> <<>>, opt |-> FALSE, md |-> <<>>, tB |-> e.t]

EvB == /\ InRange /\ E.e = "B" /\ c[E.p].st = "idle"
       /\ c' = [c EXCEPT ![E.p] = NewCall(E)]
       /\ i' = i + 1 /\ UNCHANGED <<ch, wt, F, pw, held, cfg>>

Owed(o) == \E k \in 1..Len(pw) : pw[k][1] = o

EvE == /\ InRange /\ E.e = "E" /\ c[E.p].st \in {"done", "reg"}
       /\ LET cl == Settled(E.p) IN
          /\ cl.o = E.o /\ cl.st = "done" /\ cl.md = <<>>
          /\ cl.r = E.r /\ cl.v = E.v /\ cl.vs = E.vs /\ cl.opt = E.opt
          /\ cl.r = "Timeout" => E.t >= cl.tB + cl.d        \* never before the deadline
          /\ ~Owed(cl.o)                                     \* every future it completed has been woken
          /\ held' = [held EXCEPT ![E.p] = @ \o Obl(Leaves(cl))]
          /\ wt' = IF cl.o \in DOMAIN wt THEN [y \in DOMAIN wt \ {cl.o} |-> wt[y]] ELSE wt
       /\ c' = [c EXCEPT ![E.p] = Idle]
       /\ i' = i + 1 /\ UNCHANGED <<ch, F, pw, cfg>>

EvD == /\ InRange /\ E.e = "D"
       /\ IF E.p = 9 THEN       \* the channel itself goes away: what is still buffered is destroyed
               /\ InSeq(ch.buf, E.m) /\ ch' = [ch EXCEPT !.buf = RemoveOne(@, E.m)]
               /\ UNCHANGED <<c, held>>
          ELSE IF c[E.p].st = "idle" THEN
               /\ InSeq(held[E.p], E.m) /\ held' = [held EXCEPT ![E.p] = RemoveOne(@, E.m)]
               /\ UNCHANGED <<c, ch>>
          ELSE LET cl == Settled(E.p) IN
               /\ InSeq(cl.md, E.m) /\ c' = [c EXCEPT ![E.p] = [cl EXCEPT !.md = RemoveOne(@, E.m)]]
               /\ UNCHANGED <<held, ch>>
       /\ i' = i + 1 /\ UNCHANGED <<wt, F, pw, cfg>>

RECURSIVE RemovePair(_, _)
RemovePair(s, x) == IF s = <<>> THEN <<>>
                    ELSE IF Head(s) = x THEN Tail(s) ELSE <<Head(s)>> \o RemovePair(Tail(s), x)
EvW == /\ InRange /\ E.e = "W" /\ c[E.p].st # "idle"
       /\ \E k \in 1..Len(pw) : pw[k] = <<c[E.p].o, E.w>>
       /\ pw' = RemovePair(pw, <<c[E.p].o, E.w>>)
       /\ i' = i + 1 /\ UNCHANGED <<ch, wt, F, c, held, cfg>>

EvNop == /\ InRange /\ E.e \in {"Q", "A"}
         /\ i' = i + 1 /\ UNCHANGED lvars

Quiet == /\ \A p \in Procs : c[p].st = "idle"
         /\ pw = <<>>
         /\ cfg.drops => ch.buf = <<>> /\ \A p \in Procs : held[p] = <<>>
EvZ == /\ InRange /\ E.e = "Z"
       /\ (E.stuck \/ E.budget) \/ Quiet
       /\ i' = i + 1 /\ UNCHANGED lvars

TLin == \E p \in Procs : (Lin(p) \/ LinTimeout(p)) /\ UNCHANGED i

TNext == EvX \/ EvB \/ EvE \/ EvD \/ EvW \/ EvNop \/ EvZ \/ TLin
TSpec == TInit /\ [][TNext]_tvars

\* progress register: the furthest trace position reached by any explaining path
Track == /\ TLCSet(2, IF i > TLCGet(2) THEN i ELSE TLCGet(2))
         /\ (i > Len(Rec) => TLCSet("exit", TRUE))
ASSUME TLCSet(2, 0)
Post == IF TLCGet(2) > Len(Rec) THEN TRUE
        ELSE Print(<<"REJECTED-AT", TLCGet(2), Rec[TLCGet(2)]>>, FALSE)
=============================================================================
