--------------------------- MODULE SpinMutexProof ---------------------------
(***************************************************************************)
(* C17, unbounded: mutual exclusion of the lock of SpinMutex.tla for ANY   *)
(* set of threads and any MaxOps, as a machine-checked (TLAPS) inductive   *)
(* invariant.  TLC checks the same specification exhaustively for 2..4     *)
(* threads (MC_SpinMutex.cfg); this proof removes the bound on the number  *)
(* of threads for the mutual-exclusion half of the property.               *)
(*   tlapm --threads 8 SpinMutexProof.tla                                  *)
(***************************************************************************)
EXTENDS SpinMutex, TLAPS

InCS(t) == pc[t] \in {"held", "held2"}
PcOK == pc \in [Threads -> {"idle", "cas", "backoff", "held", "held2"}]
IndInv ==
  /\ PcOK
  /\ locked \in BOOLEAN
  /\ \A t, u \in Threads : (InCS(t) /\ InCS(u)) => t = u
  /\ locked <=> (\E t \in Threads : InCS(t))

\* the cardinality-free statement of mutual exclusion
Mutex == \A t, u \in Threads : (InCS(t) /\ InCS(u)) => t = u

LEMMA InitInv == Init => IndInv
  BY DEF Init, IndInv, PcOK, InCS

LEMMA StepInv == IndInv /\ [Next]_vars => IndInv'
<1> SUFFICES ASSUME IndInv, [Next]_vars PROVE IndInv'
  OBVIOUS
<1>1. CASE UNCHANGED vars
  BY <1>1 DEF vars, IndInv, PcOK, InCS
<1>2. ASSUME NEW t \in Threads, \E k \in {"lock", "try_lock"} : Begin(t, k) PROVE IndInv'
  BY <1>2 DEF Begin, IndInv, PcOK, InCS
<1>3. ASSUME NEW t \in Threads, Cas(t) PROVE IndInv'
  <2>1. CASE ~locked
    BY <1>3, <2>1 DEF Cas, IndInv, PcOK, InCS
  <2>2. CASE locked
    BY <1>3, <2>2 DEF Cas, IndInv, PcOK, InCS
  <2> QED BY <2>1, <2>2
<1>4. ASSUME NEW t \in Threads, Backoff(t) PROVE IndInv'
  BY <1>4 DEF Backoff, IndInv, PcOK, InCS
<1>5. ASSUME NEW t \in Threads, Access(t) PROVE IndInv'
  BY <1>5 DEF Access, IndInv, PcOK, InCS
<1>6. ASSUME NEW t \in Threads, Unlock(t) PROVE IndInv'
  BY <1>6 DEF Unlock, IndInv, PcOK, InCS
<1> QED BY <1>1, <1>2, <1>3, <1>4, <1>5, <1>6 DEF Next, Step

THEOREM Safety == Spec => []Mutex
<1>1. IndInv => Mutex
  BY DEF IndInv, Mutex
<1> QED BY InitInv, StepInv, <1>1, PTL DEF Spec
=============================================================================
