SPECIFICATION MSpec
CONSTANTS
  Procs = {0, 1}
  MaxCalls = 3
  CapC = 1
  SOps = {"send", "try_send", "send_timeout", "asend_new", "close", "drop", "clone", "sender_count"}
  ROps = {"recv", "try_recv", "recv_timeout", "drain_into", "arecv_new", "poll", "drop_fut", "close", "drop", "receiver_count"}
  InitS = {0}
  InitR = {1}
INVARIANTS ShapeOK OnceL1 CountsOK ListOK NoOrphans
CHECK_DEADLOCK FALSE
