----------------------------- MODULE NonBlocking -----------------------------
(***************************************************************************)
(* C14 monitor over hook-level traces of real executions: what a try_ /    *)
(* drain_into call is allowed to DO (not what it returns -- that is L1's   *)
(* job).  A non-blocking call never parks, never registers a signal and    *)
(* waits on it; a *_realtime call additionally makes at most one attempt   *)
(* on the channel lock, never yields or sleeps, and if that one attempt    *)
(* fails it reports "not done".  Deterministic: a trace that cannot be     *)
(* consumed violates the property text.                                    *)
(***************************************************************************)
EXTENDS Naturals, Sequences, TLC, Json, IOUtils
Rec == ndJsonDeserialize(IOEnv.TRACE)
VARIABLES i, cur
E == Rec[i]
InRange == i <= Len(Rec)
Procs == 0..9
RTOps == {"try_send_realtime", "try_send_option_realtime", "try_recv_realtime"}
TryOps == {"try_send", "try_send_option", "try_recv", "drain_into"} \cup RTOps
None == [op |-> "", cas |-> 0, fail |-> 0, park |-> 0, own |-> 0, yld |-> 0]

Init == i = 1 /\ cur = [p \in Procs |-> None]
Bump(f) == cur' = [cur EXCEPT ![E.t] = [@ EXCEPT ![f] = @ + 1]]

Step ==
  /\ InRange
  /\ CASE E.k = "reset" -> cur' = [p \in Procs |-> None]
       [] E.k = "B" -> cur' = [cur EXCEPT ![E.t] = [None EXCEPT !.op = E.op]]
       [] E.k = "E" ->
            LET c == cur[E.t] IN
            /\ c.op \in TryOps => c.park = 0 /\ c.own = 0            \* never parks, never waits on a signal of its own
            /\ c.op \in RTOps => /\ c.cas <= 1 /\ c.yld = 0          \* one lock attempt, no yielding / sleeping
                                 /\ c.fail = 1 => E.r \in {"Full", "Empty"}
                                 /\ c.cas = 0 => E.r = "Panic"       \* (only the documented None-option panic skips the lock)
            /\ cur' = [cur EXCEPT ![E.t] = None]
       [] E.k = "ab_cas" -> cur' = [cur EXCEPT ![E.t] = [@ EXCEPT !.cas = @ + 1, !.fail = @ + (IF E.r = 0 THEN 1 ELSE 0)]]
       [] E.k = "park" -> Bump("park")
       [] E.k = "a8_load" /\ E.own = E.t -> Bump("own")
       [] E.k = "yield" /\ E.a \in {1, 2} -> Bump("yld")
       [] OTHER -> UNCHANGED cur
  /\ i' = i + 1
Spec == Init /\ [][Step]_<<i, cur>>
Track == /\ TLCSet(2, IF i > TLCGet(2) THEN i ELSE TLCGet(2))
         /\ (i > Len(Rec) => TLCSet("exit", TRUE))
ASSUME TLCSet(2, 0)
Post == IF TLCGet(2) > Len(Rec) THEN TRUE
        ELSE Print(<<"REJECTED-AT", TLCGet(2), Rec[TLCGet(2)]>>, FALSE)
=============================================================================
