SPECIFICATION Spec
CONSTANT Prop = "C02"
CONSTRAINT Track
POSTCONDITION Post
CHECK_DEADLOCK FALSE
