SPECIFICATION TSpec
CONSTANT Procs = {0, 1, 2, 3, 4, 5, 6, 7, 9}
CONSTRAINT Track
INVARIANT ShapeOK
POSTCONDITION Post
CHECK_DEADLOCK FALSE
