SPECIFICATION Spec
CONSTANT Prop = "C09"
CONSTRAINT Track
POSTCONDITION Post
CHECK_DEADLOCK FALSE
