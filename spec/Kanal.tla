-------------------------------- MODULE Kanal --------------------------------
(***************************************************************************)
(* L2 -- implementation-shaped specification of kanal (fereidani/kanal,    *)
(* pinned tree + the repairs recorded in /verif/known_findings.json).      *)
(*                                                                         *)
(* One action per *hook event* of the real code: the cfg(kanal_verif) shim *)
(* stops a thread before every atomic operation, payload move, park,       *)
(* unpark, clock read and waker call.  An action is "the pending event     *)
(* takes effect, then the code runs on to its next hook" -- exactly the    *)
(* unit of atomicity of a harness execution, so recorded executions map    *)
(* 1:1 onto behaviours of this spec (KanalTrace.tla).                      *)
(*                                                                         *)
(* pc[p] names the next hook event of process p.  Code references are to   *)
(* /repo/src.  Shared state C mirrors ChannelInternal + the spin lock,     *)
(* S[p] the Signal living in p's stack frame / future, L[p] p's locals.    *)
(***************************************************************************)
EXTENDS Naturals, Sequences, FiniteSets, TLC

CONSTANTS
  Senders, Receivers,   \* process ids (each starts with one handle of its side)
  Closers,              \* processes without a handle of their own that may only call close() through a borrowed one
  Cap,                  \* capacity; UNB for unbounded
  MaxOps,               \* operations per process
  SpinMax,              \* abstraction of the 256 / 32 spin iterations of Signal::wait
  MaxSpur,              \* spurious unparks / spurious polls per operation
  MaxWaits,             \* waits of one stream
  SMenu, RMenu,         \* operation kinds offered to senders / receivers
  Wk,                   \* waker numbers a task may poll with
  MaxNow,               \* clock range (ticks)
  FIX                   \* TRUE: repaired code; FALSE: pinned tree (defects D1, D2, D4, D5, D6)

UNB == 1000000
Procs == Senders \cup Receivers \cup Closers
NONE == "none"
NOPROC == "none"        \* "no process" (lock holder, wake target); overridden by an integer in KanalTrace
NOMSG == <<>>
Final == {"UNLOCKED", "TERM"}

SendKinds  == {"send", "try_send", "try_send_rt", "send_to", "send_opt", "asend"}
RecvKinds  == {"recv", "try_recv", "try_recv_rt", "recv_to", "arecv", "stream"}
AsyncKinds == {"asend", "arecv", "stream"}
TimedKinds == {"send_to", "send_opt", "recv_to"}
TryKinds   == {"try_send", "try_send_rt", "try_recv", "try_recv_rt"}
RTKinds    == {"try_send_rt", "try_recv_rt"}
Durations  == {0, 1}

VARIABLES
  C,      \* [queue, wl, rb, sc, rc, lock]
  S,      \* per process: its signal [st, kind, thr, wk, slot]
  L,      \* per process: locals (see LInit)
  token,  \* park tokens
  woken,  \* wakers that have been woken and not yet consumed by a poll
  now,    \* virtual clock
  G       \* ghost ledger [delivered, dropped, created, order]

vars == <<C, S, L, token, woken, now, G>>

WakersOf(p) == {p} \X Wk

\* ------------------------------------------------------------------ state update helpers
LSet(p, r) == L' = [L EXCEPT ![p] = r @@ @]
CSet(r) == C' = r @@ C
SSet(t, r) == S' = [S EXCEPT ![t] = r @@ @]
InWl(p) == \E k \in 1..Len(C.wl) : C.wl[k] = p
Remove(s, p) == SelectSeq(s, LAMBDA x : x # p)
IsSender(p) == p \in Senders \cup Closers
WakePc(t) == IF S[t].kind = "async" THEN "ka_clone" ELSE "k_cas"
Cnt(f, m) == IF m \in DOMAIN f THEN f[m] ELSE 0
Bump(f, m) == (m :> Cnt(f, m) + 1) @@ f

RECURSIVE BumpAll(_, _)
BumpAll(f, s) == IF s = <<>> THEN f ELSE BumpAll(Bump(f, Head(s)), Tail(s))

NilSig == [st |-> "NIL", kind |-> "sync", thr |-> FALSE, wk |-> NOMSG, slot |-> NOMSG]
LInit == [pc |-> "idle", after |-> NONE, cont |-> NONE, opn |-> 0, kind |-> NONE, msg |-> NOMSG,
          dl |-> 0, tgt |-> NOPROC, ti |-> 0, val |-> NOMSG, vec |-> <<>>, fin |-> NONE, cw |-> NOMSG,
          csk |-> "op", ctx |-> "poll", fst |-> "None", curw |-> NOMSG, spur |-> 0, spin |-> 0,
          waits |-> 0, res |-> NONE, hs |-> 1, wtmp |-> NOMSG, cnt |-> 0]

Init ==
  /\ C = [queue |-> <<>>, wl |-> <<>>, rb |-> FALSE,
          sc |-> Cardinality(Senders), rc |-> Cardinality(Receivers), lock |-> NOPROC]
  /\ S = [p \in Procs |-> NilSig]
  /\ L = [p \in Procs |-> LInit]
  /\ token = [p \in Procs |-> FALSE] /\ woken = {} /\ now = 0
  /\ G = [delivered |-> <<>>, dropped |-> <<>>, created |-> {}, order |-> <<>>, acc |-> <<>>, closed |-> FALSE]

\* =========================================================================
\* operation start (the public call is entered; no hook yet)
\* =========================================================================
BeginM(p, k, d, mm) ==
  /\ L[p].pc = "idle" /\ L[p].opn < MaxOps /\ L[p].hs > 0
  /\ k \in (IF p \in Closers THEN {"close"} ELSE IF IsSender(p) THEN SMenu ELSE RMenu)
  /\ IF k \in TimedKinds THEN now + d <= MaxNow ELSE d = 0
  /\ LET m == IF k \in SendKinds THEN mm ELSE NOMSG
         first == IF k = "noop" THEN "ret" ELSE IF k \in AsyncKinds THEN "f_idle" ELSE IF k \in TimedKinds THEN "now0" ELSE "lock" IN
     /\ LSet(p, [pc |-> first, kind |-> k, msg |-> m, opn |-> L[p].opn + 1, dl |-> d, res |-> NONE,
                 csk |-> "op", spur |-> 0, spin |-> 0, waits |-> 0, curw |-> NOMSG, ctx |-> "poll",
                 vec |-> <<>>, val |-> NOMSG,
                 fst |-> IF k \in AsyncKinds THEN "Zero" ELSE "None"])
     /\ G' = IF k \in SendKinds THEN [G EXCEPT !.created = @ \cup {m}] ELSE G
     \* a future embeds its signal: Signal::new_async (future.rs 79-96, 294-303)
     /\ S' = IF k \in AsyncKinds THEN [S EXCEPT ![p] = [st |-> "LOCKED", kind |-> "async", thr |-> FALSE, wk |-> NOMSG,
                                                         slot |-> IF k = "asend" THEN m ELSE NOMSG]]
             ELSE S
  /\ UNCHANGED <<C, token, woken, now>>

Begin(p, k, d) == BeginM(p, k, d, <<p, L[p].opn + 1>>)

\* the clock may advance at any moment
Tick == /\ now < MaxNow /\ now' = now + 1 /\ UNCHANGED <<C, S, L, token, woken, G>>

\* Instant::now() + duration (lib.rs 779, 863, 1159)
Now0(p) == /\ L[p].pc = "now0" /\ LSet(p, [pc |-> "lock", dl |-> now + L[p].dl])
           /\ UNCHANGED <<C, S, token, woken, now, G>>

\* =========================================================================
\* futures: the calls an executor makes (poll with some waker, or drop)
\* =========================================================================
PollBegin(p, w) ==
  /\ L[p].pc = "f_idle" /\ w \in WakersOf(p)
  /\ \/ L[p].fst \in {"Zero"} /\ UNCHANGED token
     \/ L[p].fst = "Done" /\ L[p].kind = "stream" /\ UNCHANGED token
     \/ L[p].fst = "Waiting" /\ L[p].curw \in woken /\ UNCHANGED token
     \/ L[p].fst = "Waiting" /\ L[p].curw \notin woken /\ L[p].spur < MaxSpur /\ UNCHANGED token
  /\ woken' = woken \ {L[p].curw}
  /\ LET spurious == L[p].fst = "Waiting" /\ L[p].curw \notin woken IN
     IF L[p].fst = "Waiting"
       THEN /\ LSet(p, [pc |-> "pw_load", curw |-> w, ctx |-> "poll",
                        spur |-> IF spurious THEN L[p].spur + 1 ELSE L[p].spur])
            /\ UNCHANGED S
       ELSE /\ LSet(p, [pc |-> "lock", curw |-> w, ctx |-> "poll", csk |-> "op", fst |-> "Zero"])
            \* the stream re-arms the signal of its reused future (future.rs stream branch; D4 on the pinned tree)
            /\ S' = IF FIX /\ L[p].fst = "Done" THEN [S EXCEPT ![p].st = "LOCKED"] ELSE S
  /\ UNCHANGED <<C, now, G>>

FutDrop(p) ==
  /\ L[p].pc = "f_idle"
  /\ IF L[p].fst = "Waiting" THEN LSet(p, [pc |-> "lock", csk |-> "cancel", ctx |-> "drop", res |-> "Dropped"])
     ELSE IF L[p].fst = "Zero" /\ L[p].kind = "asend" THEN LSet(p, [pc |-> "dropdata", ctx |-> "drop", res |-> "Dropped"])
     ELSE LSet(p, [pc |-> "ret", ctx |-> "drop", res |-> "Dropped"])
  /\ UNCHANGED <<C, S, token, woken, now, G>>

\* =========================================================================
\* critical sections: the successful lock CAS (mutex.rs 31-35) plus the body up to its first hook
\* =========================================================================
\* own signal registered in the waiting list (sync: Signal::new_sync + push; async: after register_waker)
SyncReg(p, slotv) == [st |-> "LOCKED", kind |-> "sync", thr |-> FALSE, wk |-> NOMSG, slot |-> slotv]

\* each body yields [c, l, s]: updates of C, of L[p], and of S[p] (<<>> = none)
SendBody(p) ==
  LET k == L[p].kind  async == k = "asend"
      waitpc == IF k \in TimedKinds THEN "tw_spin1" ELSE "w_load0"
      done == IF async THEN [fst |-> "Done"] ELSE <<>> IN
  IF C.rc = 0 THEN
     [c |-> <<>>, s |-> <<>>,
      l |-> done @@ [pc |-> "unlock", after |-> "dropdata", res |-> IF C.sc = 0 THEN "Closed" ELSE "RecvClosed"]]
  ELSE IF C.rb /\ C.wl # <<>> THEN          \* next_recv() = Some(first)
     [c |-> [wl |-> Tail(C.wl)], s |-> <<>>, o |-> <<L[p].msg>>, a |-> <<L[p].msg>>,
      l |-> done @@ [pc |-> "unlock", after |-> IF async THEN "a_read" ELSE "hw", cont |-> "hand",
                     tgt |-> Head(C.wl), res |-> "Ok"]]
  ELSE
     LET c0 == IF C.rb THEN [rb |-> FALSE] ELSE <<>> IN     \* next_recv() flips the flag on an empty list
     IF Len(C.queue) < Cap THEN
        IF async THEN [c |-> c0, s |-> <<>>, l |-> done @@ [pc |-> "a_read", cont |-> "push", res |-> "Ok"]]
        ELSE [c |-> c0 @@ [queue |-> Append(C.queue, L[p].msg)], s |-> <<>>, a |-> <<L[p].msg>>,
              l |-> [pc |-> "unlock", after |-> "ret", res |-> "Ok"]]
     ELSE IF k \in TryKinds THEN
        [c |-> c0, s |-> <<>>, l |-> [pc |-> "unlock", after |-> "dropdata", res |-> "Full"]]
     ELSE IF async THEN
        [c |-> c0, s |-> <<>>, l |-> [pc |-> "rz_fw", fst |-> "Waiting", res |-> NONE]]
     ELSE
        [c |-> c0 @@ [wl |-> Append(C.wl, p)], s |-> SyncReg(p, L[p].msg), a |-> <<L[p].msg>>,
         l |-> [pc |-> "unlock", after |-> waitpc, res |-> NONE]]

RecvBody(p) ==
  LET k == L[p].kind  async == k \in AsyncKinds
      waitpc == IF k \in TimedKinds THEN "tw_spin1" ELSE "w_load0"
      done == IF async THEN [fst |-> "Done"] ELSE <<>> IN
  IF C.rc = 0 THEN
     [c |-> <<>>, s |-> <<>>, l |-> done @@ [pc |-> "unlock", after |-> "ret", res |-> "Closed"]]
  ELSE IF C.queue # <<>> THEN
     LET v == Head(C.queue) IN
     IF ~C.rb /\ C.wl # <<>> THEN          \* next_send() = Some(p): refill under the lock
        [c |-> [queue |-> Tail(C.queue), wl |-> Tail(C.wl)], s |-> <<>>, o |-> <<v>>,
         l |-> done @@ [pc |-> "kp_read", cont |-> "refill", tgt |-> Head(C.wl), val |-> v, res |-> "Ok"]]
     ELSE
        [c |-> [queue |-> Tail(C.queue)] @@ (IF ~C.rb THEN [rb |-> TRUE] ELSE <<>>), s |-> <<>>, o |-> <<v>>,
         l |-> done @@ [pc |-> "unlock", after |-> "deliver", val |-> v, res |-> "Ok"]]
  ELSE IF ~C.rb /\ C.wl # <<>> THEN
     [c |-> [wl |-> Tail(C.wl)], s |-> <<>>, o |-> <<S[Head(C.wl)].slot>>,
      l |-> done @@ [pc |-> "unlock", after |-> "kp_read", cont |-> "take", tgt |-> Head(C.wl), res |-> "Ok"]]
  ELSE
     LET c0 == IF ~C.rb THEN [rb |-> TRUE] ELSE <<>> IN
     IF k = "recv_to" THEN [c |-> c0, s |-> <<>>, l |-> [pc |-> "cs_now"]]
     ELSE IF C.sc = 0 THEN
        [c |-> c0, s |-> <<>>, l |-> done @@ [pc |-> "unlock", after |-> "ret", res |-> "SendClosed"]]
     ELSE IF k \in TryKinds THEN
        [c |-> c0, s |-> <<>>, l |-> [pc |-> "unlock", after |-> "ret", res |-> "Empty"]]
     ELSE IF async THEN
        [c |-> c0, s |-> <<>>, l |-> [pc |-> "rz_fw", fst |-> "Waiting", res |-> NONE]]
     ELSE
        [c |-> c0 @@ [wl |-> Append(C.wl, p)], s |-> SyncReg(p, NOMSG),
         l |-> [pc |-> "unlock", after |-> waitpc, res |-> NONE]]

\* recv_timeout's deadline test inside the critical section (lib.rs recv_timeout: `Instant::now() > deadline`)
CsNow(p) ==
  /\ L[p].pc = "cs_now"
  /\ IF now > L[p].dl THEN LSet(p, [pc |-> "unlock", after |-> "ret", res |-> "Timeout"]) /\ UNCHANGED <<C, S>>
     ELSE IF C.sc = 0 THEN LSet(p, [pc |-> "unlock", after |-> "ret", res |-> "SendClosed"]) /\ UNCHANGED <<C, S>>
     ELSE /\ CSet([wl |-> Append(C.wl, p)]) /\ SSet(p, SyncReg(p, NOMSG))
          /\ LSet(p, [pc |-> "unlock", after |-> "tw_spin1", res |-> NONE])
  /\ UNCHANGED <<token, woken, now, G>>

\* drain_into (lib.rs shared_recv_impl): everything under one lock acquisition
DrainBody(p) ==
  IF C.rc = 0 THEN [c |-> <<>>, s |-> <<>>, l |-> [pc |-> "unlock", after |-> "ret", res |-> "Closed"]]
  ELSE IF ~C.rb /\ C.wl # <<>> THEN
     [c |-> [queue |-> <<>>, wl |-> Tail(C.wl)], s |-> <<>>, o |-> C.queue \o <<S[Head(C.wl)].slot>>,
      l |-> [pc |-> "kp_read", cont |-> "drain", tgt |-> Head(C.wl), vec |-> C.queue, res |-> "Ok"]]
  ELSE
     [c |-> [queue |-> <<>>] @@ (IF ~C.rb THEN [rb |-> TRUE] ELSE <<>>), s |-> <<>>, o |-> C.queue,
      l |-> [pc |-> "unlock", after |-> "deliver", vec |-> C.queue, res |-> "Ok"]]

\* terminate_signals (internal.rs 80-86): iterates the list, clears it afterwards
TermStart(p, c1, afterpc, clear) ==
  IF C.wl = <<>> THEN
     [c |-> c1 @@ (IF clear THEN [queue |-> <<>>] ELSE <<>>), s |-> <<>>,
      l |-> [pc |-> "unlock", after |-> afterpc, res |-> "Ok"]]
  ELSE
     [c |-> c1, s |-> <<>>,
      l |-> [pc |-> WakePc(C.wl[1]), cont |-> "term", tgt |-> C.wl[1], ti |-> 1, fin |-> "TERM",
             after |-> afterpc, res |-> "Ok"]]

CloseBody(p) ==
  IF C.sc = 0 /\ C.rc = 0 THEN [c |-> <<>>, s |-> <<>>, l |-> [pc |-> "unlock", after |-> "ret", res |-> "CloseErr"]]
  ELSE TermStart(p, [sc |-> 0, rc |-> 0], "ret", TRUE)

DropBody(p) ==
  LET mine == IF IsSender(p) THEN C.sc ELSE C.rc
      other == IF IsSender(p) THEN C.rc ELSE C.sc
      dec == IF IsSender(p) THEN [sc |-> C.sc - 1] ELSE [rc |-> C.rc - 1] IN
  IF mine = 0 THEN [c |-> <<>>, s |-> <<>>, l |-> [pc |-> "unlock", after |-> "ret", res |-> "Ok"]]
  ELSE IF mine = 1 /\ other # 0 THEN TermStart(p, dec, "ret", FALSE)
  ELSE [c |-> dec, s |-> <<>>, l |-> [pc |-> "unlock", after |-> "ret", res |-> "Ok"]]

CloneBody(p) ==
  LET mine == IF IsSender(p) THEN C.sc ELSE C.rc
      inc == IF mine = 0 THEN <<>> ELSE IF IsSender(p) THEN [sc |-> C.sc + 1] ELSE [rc |-> C.rc + 1] IN
  [c |-> inc, s |-> <<>>, l |-> [pc |-> "unlock", after |-> "ret", res |-> "Ok"]]

ObsBody(p) == [c |-> <<>>, s |-> <<>>, l |-> [pc |-> "unlock", after |-> "ret", res |-> "Ok", cnt |-> Len(C.queue)]]

\* cancel_*_signal (timeout expiry, future drop)
CancelBody(p) ==
  LET k == L[p].kind  mine == InWl(p) /\ (C.rb = ~IsSender(p)) IN
  IF mine THEN
     [c |-> [wl |-> Remove(C.wl, p)], s |-> <<>>,
      l |-> IF L[p].ctx = "drop" /\ k \in AsyncKinds
              THEN [pc |-> "unlock", after |-> IF k = "asend" THEN "dropdata" ELSE "ret"]
              ELSE [pc |-> "unlock", res |-> "Timeout",
                    after |-> IF k = "send_opt" THEN "dropdata"
                              ELSE IF k = "send_to" /\ FIX THEN "dropdata"     \* D1: the pinned tree leaks here
                              ELSE "ret"]]
  ELSE [c |-> <<>>, s |-> <<>>,
        l |-> [pc |-> "unlock", after |-> IF k \in AsyncKinds THEN "abw_load" ELSE "w_load0"]]

\* *_signal_exists when a pending future is polled with another waker (future.rs Waiting branches)
ExistsBody(p) ==
  LET mine == InWl(p) /\ (C.rb = ~IsSender(p)) IN
  IF mine THEN
     IF FIX THEN [c |-> <<>>, s |-> <<>>, l |-> [pc |-> "rw_fw"]]                          \* waker stored under the lock
     ELSE IF L[p].kind = "asend" THEN [c |-> <<>>, s |-> <<>>, l |-> [pc |-> "unlock", after |-> "f_pend"]]   \* D5
     ELSE [c |-> <<>>, s |-> <<>>, l |-> [pc |-> "unlock", after |-> "rw_fw"]]              \* D6
  ELSE [c |-> <<>>, s |-> <<>>, l |-> [pc |-> "unlock", after |-> "abw_load", fst |-> "Done"]]

Body(p) ==
  LET k == L[p].kind IN
  CASE L[p].csk = "cancel" -> CancelBody(p)
    [] L[p].csk = "exists" -> ExistsBody(p)
    [] k \in SendKinds -> SendBody(p)
    [] k \in RecvKinds -> RecvBody(p)
    [] k = "drain" -> DrainBody(p)
    [] k = "close" -> CloseBody(p)
    [] k = "drop" -> DropBody(p)
    [] k = "clone" -> CloneBody(p)
    [] k = "len" -> ObsBody(p)

Lock(p) ==
  /\ L[p].pc = "lock" /\ C.lock = NOPROC
  /\ LET b == Body(p) IN
     /\ C' = b.c @@ [C EXCEPT !.lock = p]
     /\ LSet(p, b.l)
     /\ S' = IF b.s = <<>> THEN S ELSE [S EXCEPT ![p] = b.s]
     \* close destroys the buffered values under the lock (queue.clear())
     /\ G' = LET g1 == IF "queue" \in DOMAIN b.c /\ L[p].kind = "close" /\ L[p].csk = "op"
                        THEN [G EXCEPT !.dropped = BumpAll(@, C.queue)]
                        ELSE [G EXCEPT !.order = IF "o" \in DOMAIN b THEN @ \o b.o ELSE @,    \* hand-out order is fixed under the lock
                                       !.acc = IF "a" \in DOMAIN b THEN @ \o b.a ELSE @]      \* and so is the order of acceptance
              IN [g1 EXCEPT !.closed = @ \/ (L[p].kind = "close" /\ L[p].csk = "op" /\ "sc" \in DOMAIN b.c)]
  /\ UNCHANGED <<token, woken, now>>

\* try_acquire_internal fails: the realtime variants give up after one CAS (lib.rs try_*_realtime)
TryLockFail(p) ==
  /\ L[p].pc = "lock" /\ C.lock # NOPROC /\ L[p].kind \in RTKinds
  /\ LSet(p, [pc |-> IF L[p].kind = "try_send_rt" THEN "dropdata" ELSE "ret",
              res |-> IF L[p].kind = "try_send_rt" THEN "Full" ELSE "Empty"])
  /\ UNCHANGED <<C, S, token, woken, now, G>>

Unlock(p) ==
  /\ L[p].pc = "unlock" /\ C.lock = p
  /\ CSet([lock |-> NOPROC]) /\ LSet(p, [pc |-> L[p].after])
  /\ UNCHANGED <<S, token, woken, now, G>>

\* register_waker at registration (poll in state Zero): FIELD_WRITE, then waker clone, then push to the list
RzFw(p) == /\ L[p].pc = "rz_fw" /\ LSet(p, [pc |-> "rz_clone"]) /\ UNCHANGED <<C, S, token, woken, now, G>>
RzClone(p) ==
  /\ L[p].pc = "rz_clone"
  /\ SSet(p, [wk |-> L[p].curw]) /\ CSet([wl |-> Append(C.wl, p)])
  /\ LSet(p, [pc |-> "unlock", after |-> "f_pend"])
  /\ G' = IF L[p].kind = "asend" THEN [G EXCEPT !.acc = Append(@, L[p].msg)] ELSE G
  /\ UNCHANGED <<token, woken, now>>
\* register_waker on a waker change
RwFw(p) == /\ L[p].pc = "rw_fw" /\ LSet(p, [pc |-> "rw_clone"]) /\ UNCHANGED <<C, S, token, woken, now, G>>
RwClone(p) ==
  /\ L[p].pc = "rw_clone" /\ SSet(p, [wk |-> L[p].curw])
  /\ (IF C.lock = p THEN LSet(p, [pc |-> "unlock", after |-> "f_pend"]) ELSE LSet(p, [pc |-> "f_pend"]))
  /\ UNCHANGED <<C, token, woken, now, G>>

\* =========================================================================
\* payload moves (pointer.rs KanalPtr::write / read, signal.rs send / recv)
\* =========================================================================
Live(t) == S[t].st \in {"LOCKED", "STARV"}
\* the async sender reads its own data before giving it away (future.rs read_local_data)
ARead(p) ==
  /\ L[p].pc = "a_read" /\ Assert(S[p].slot = L[p].msg, "send future lost its data")
  /\ IF L[p].cont = "push"
       THEN CSet([queue |-> Append(C.queue, L[p].msg)]) /\ LSet(p, [pc |-> "unlock", after |-> "ret"])
            /\ G' = [G EXCEPT !.acc = Append(@, L[p].msg)]
       ELSE LSet(p, [pc |-> "hw"]) /\ UNCHANGED <<C, G>>
  /\ UNCHANGED <<S, token, woken, now>>
\* Signal::send: write the value into the claimed receiver's slot, then wake it
HandWrite(p) ==
  /\ L[p].pc = "hw" /\ Assert(Live(L[p].tgt), "write into a finished signal")
  /\ SSet(L[p].tgt, [slot |-> L[p].msg])
  /\ LSet(p, [pc |-> WakePc(L[p].tgt), fin |-> "UNLOCKED", cont |-> "hand"])
  /\ UNCHANGED <<C, token, woken, now, G>>
\* Signal::recv: read the value out of the claimed sender's slot, then wake it
KpRead(p) ==
  /\ L[p].pc = "kp_read"
  /\ Assert(Live(L[p].tgt) /\ S[L[p].tgt].slot # NOMSG, "read from a finished or empty signal")
  /\ LSet(p, [pc |-> WakePc(L[p].tgt), fin |-> "UNLOCKED",
              val |-> IF L[p].cont = "take" THEN S[L[p].tgt].slot ELSE L[p].val,
              cw |-> IF L[p].cont \in {"refill", "drain"} THEN S[L[p].tgt].slot ELSE L[p].cw])
  /\ UNCHANGED <<C, S, token, woken, now, G>>

\* =========================================================================
\* Signal::wake (signal.rs 223-245), executed by the claimer p on its target
\* =========================================================================
\* what the claimer does once the wake sequence is over (the code after Signal::send/recv/terminate returns)
WakeTail(p) ==
  LET ct == L[p].cont IN
  CASE ct = "hand" -> [c |-> <<>>, l |-> [pc |-> "ret"]]
    [] ct = "take" -> [c |-> <<>>, l |-> [pc |-> "deliver"]]
    [] ct = "refill" -> [c |-> [queue |-> Append(C.queue, L[p].cw)], l |-> [pc |-> "unlock", after |-> "deliver"]]
    [] ct = "drain" ->
         IF C.wl # <<>> THEN [c |-> [wl |-> Tail(C.wl)],
                              l |-> [pc |-> "kp_read", tgt |-> Head(C.wl), vec |-> Append(L[p].vec, L[p].cw)]]
         ELSE [c |-> [rb |-> TRUE], l |-> [pc |-> "unlock", after |-> "deliver", vec |-> Append(L[p].vec, L[p].cw)]]
    [] ct = "term" ->
         IF L[p].ti < Len(C.wl) THEN
            [c |-> <<>>, l |-> [pc |-> WakePc(C.wl[L[p].ti + 1]), tgt |-> C.wl[L[p].ti + 1], ti |-> L[p].ti + 1]]
         ELSE [c |-> [wl |-> <<>>] @@ (IF L[p].kind = "close" THEN [queue |-> <<>>] ELSE <<>>),
               l |-> [pc |-> "unlock"]]
ApplyTail(p, extraL) ==
  LET t == WakeTail(p) IN
  /\ C' = t.c @@ C
  /\ L' = [L EXCEPT ![p] = t.l @@ extraL @@ @]
  /\ G' = IF L[p].cont = "term" /\ L[p].ti >= Len(C.wl) /\ L[p].kind = "close"
          THEN [G EXCEPT !.dropped = BumpAll(@, C.queue)]
          ELSE IF L[p].cont = "drain" /\ C.wl # <<>> THEN [G EXCEPT !.order = Append(@, S[Head(C.wl)].slot)]
          ELSE G

KCas(p) ==         \* compare_exchange(LOCKED, state, Release, Acquire)
  /\ L[p].pc = "k_cas"
  /\ IF S[L[p].tgt].st = "LOCKED"
       THEN SSet(L[p].tgt, [st |-> L[p].fin]) /\ ApplyTail(p, <<>>)
       ELSE /\ Assert(S[L[p].tgt].st = "STARV", "wake on a signal that is neither LOCKED nor LOCKED_STARVATION")
            /\ LSet(p, [pc |-> "k_clone"]) /\ UNCHANGED <<S, C, G>>
  /\ UNCHANGED <<token, woken, now>>
KClone(p) ==       \* (*waker.get()).as_ref().unwrap().clone()
  /\ L[p].pc = "k_clone" /\ Assert(S[L[p].tgt].thr, "thread handle not published")
  /\ LSet(p, [pc |-> "k_store"]) /\ UNCHANGED <<C, S, token, woken, now, G>>
KStore(p) ==       \* state.store(state, Release)
  /\ L[p].pc = "k_store" /\ Assert(S[L[p].tgt].st = "STARV", "store on a signal that left LOCKED_STARVATION")
  /\ SSet(L[p].tgt, [st |-> L[p].fin]) /\ LSet(p, [pc |-> "k_unpark"])
  /\ UNCHANGED <<C, token, woken, now, G>>
KUnpark(p) ==      \* thread.unpark()
  /\ L[p].pc = "k_unpark" /\ token' = [token EXCEPT ![L[p].tgt] = TRUE]
  /\ ApplyTail(p, <<>>) /\ UNCHANGED <<S, woken, now>>
KAClone(p) ==      \* let w = w.clone()
  /\ L[p].pc = "ka_clone"
  /\ Assert(S[L[p].tgt].st = "LOCKED", "async wake on a signal that is not LOCKED")
  /\ Assert(S[L[p].tgt].wk # NOMSG, "async wake without a waker")
  /\ LSet(p, [pc |-> "ka_store", wtmp |-> S[L[p].tgt].wk])
  /\ UNCHANGED <<C, S, token, woken, now, G>>
KAStore(p) ==      \* state.store(state, Release)
  /\ L[p].pc = "ka_store" /\ SSet(L[p].tgt, [st |-> L[p].fin]) /\ LSet(p, [pc |-> "ka_wake"])
  /\ UNCHANGED <<C, token, woken, now, G>>
KAWake(p) ==       \* w.wake()
  /\ L[p].pc = "ka_wake" /\ woken' = woken \cup {L[p].wtmp}
  /\ ApplyTail(p, [wtmp |-> NOMSG]) /\ UNCHANGED <<S, token, now>>

\* =========================================================================
\* Signal::wait (signal.rs 122-161), executed by the owner
\* =========================================================================
WLoad0(p) ==
  /\ L[p].pc = "w_load0"
  /\ LSet(p, [pc |-> IF S[p].st \in Final THEN "w_done" ELSE "w_spin", spin |-> 0])
  /\ UNCHANGED <<C, S, token, woken, now, G>>
WSpin(p) ==        \* yield_now_std(); load(Relaxed)
  /\ L[p].pc = "w_spin"
  /\ IF S[p].st \in Final THEN LSet(p, [pc |-> "w_done"])
     ELSE \/ L[p].spin < SpinMax /\ LSet(p, [spin |-> L[p].spin + 1])
          \/ LSet(p, [pc |-> "w_setthr"])        \* the (abstracted) spin budget is used up
  /\ UNCHANGED <<C, S, token, woken, now, G>>
WSetThr(p) ==      \* *waker.get() = Some(thread::current())
  /\ L[p].pc = "w_setthr" /\ SSet(p, [thr |-> TRUE]) /\ LSet(p, [pc |-> "w_cas"])
  /\ UNCHANGED <<C, token, woken, now, G>>
WCas(p) ==         \* compare_exchange(LOCKED, LOCKED_STARVATION, Release, Acquire)
  /\ L[p].pc = "w_cas"
  /\ IF S[p].st = "LOCKED" THEN SSet(p, [st |-> "STARV"]) /\ LSet(p, [pc |-> "w_park"])
     ELSE LSet(p, [pc |-> "w_done"]) /\ UNCHANGED S
  /\ UNCHANGED <<C, token, woken, now, G>>
WPark(p) ==        \* thread::park(): returns with the token, or spuriously
  /\ L[p].pc = "w_park"
  /\ \/ token[p] /\ token' = [token EXCEPT ![p] = FALSE] /\ LSet(p, [pc |-> "w_chk"])
     \/ ~token[p] /\ L[p].spur < MaxSpur /\ UNCHANGED token /\ LSet(p, [pc |-> "w_chk", spur |-> L[p].spur + 1])
  /\ UNCHANGED <<C, S, woken, now, G>>
WChk(p) ==         \* load(Acquire)
  /\ L[p].pc = "w_chk" /\ LSet(p, [pc |-> IF S[p].st \in Final THEN "w_done" ELSE "w_park"])
  /\ UNCHANGED <<C, S, token, woken, now, G>>
\* the owner has seen a final state: what the public function does with it
WDone(p) ==
  /\ L[p].pc = "w_done"
  /\ LET k == L[p].kind IN
     IF S[p].st = "UNLOCKED" THEN
        IF k \in SendKinds THEN
           \* D2: on the pinned tree send_option_timeout still owns (and drops) the value it handed over
           LSet(p, [res |-> "Ok", pc |-> IF k = "send_opt" /\ ~FIX THEN "dropdata" ELSE "ret"])
        ELSE /\ Assert(S[p].slot # NOMSG, "receive of an unwritten slot")
             /\ LSet(p, [res |-> "Ok", val |-> S[p].slot, pc |-> "deliver"])
     ELSE LSet(p, [res |-> "Closed", pc |-> IF k \in SendKinds THEN "dropdata" ELSE "ret"])
  /\ UNCHANGED <<C, S, token, woken, now, G>>

\* =========================================================================
\* Signal::wait_timeout (signal.rs 164-186) and the callers' expiry handling
\* =========================================================================
TwSpin1(p) ==      \* first phase (parallelism > 1): a bounded number of plain loads
  /\ L[p].pc = "tw_spin1"
  \* a final state ends the wait; `false` (terminated) makes the caller ask is_terminated() next
  /\ IF S[p].st \in Final THEN LSet(p, [pc |-> IF S[p].st = "UNLOCKED" THEN "w_done" ELSE "tw_isterm"])
     ELSE L[p].spin < SpinMax /\ LSet(p, [spin |-> L[p].spin + 1])
  /\ UNCHANGED <<C, S, token, woken, now, G>>
TwSkip1(p) ==      \* the first phase is over (or skipped: reported parallelism 1); no hook
  /\ L[p].pc = "tw_spin1" /\ LSet(p, [pc |-> "tw_now"])
  /\ UNCHANGED <<C, S, token, woken, now, G>>
TwNow(p) ==        \* while Instant::now() < until
  /\ L[p].pc = "tw_now"
  /\ LSet(p, [pc |-> IF now < L[p].dl THEN "tw_load" ELSE "tw_final"])
  /\ UNCHANGED <<C, S, token, woken, now, G>>
TwLoad(p) ==       \* load(Relaxed) inside the loop
  /\ L[p].pc = "tw_load"
  /\ LSet(p, [pc |-> IF S[p].st = "UNLOCKED" THEN "w_done" ELSE IF S[p].st = "TERM" THEN "tw_isterm" ELSE "tw_now"])
  /\ UNCHANGED <<C, S, token, woken, now, G>>
TwFinal(p) ==      \* load(Acquire) == UNLOCKED after the loop
  /\ L[p].pc = "tw_final"
  /\ LSet(p, [pc |-> IF S[p].st = "UNLOCKED" THEN "w_done" ELSE "tw_isterm"])
  /\ UNCHANGED <<C, S, token, woken, now, G>>
TwIsTerm(p) ==     \* sig.is_terminated(), else cancel under the lock
  /\ L[p].pc = "tw_isterm"
  /\ IF S[p].st = "TERM" THEN LSet(p, [pc |-> "w_done"]) ELSE LSet(p, [pc |-> "lock", csk |-> "cancel"])
  /\ UNCHANGED <<C, S, token, woken, now, G>>

\* =========================================================================
\* futures: poll while Waiting (future.rs), async_blocking_wait (signal.rs 87-118)
\* =========================================================================
FPend(p) ==        \* Poll::Pending is returned
  /\ L[p].pc = "f_pend" /\ LSet(p, [pc |-> "f_idle"]) /\ UNCHANGED <<C, S, token, woken, now, G>>
PwLoad(p) ==       \* sig.poll(): load(Relaxed)
  /\ L[p].pc = "pw_load"
  /\ IF S[p].st \in Final THEN LSet(p, [pc |-> "f_result", fst |-> "Done"]) ELSE LSet(p, [pc |-> "pw_ww"])
  /\ UNCHANGED <<C, S, token, woken, now, G>>
PwWillWake(p) ==   \* sig.will_wake(cx.waker())
  /\ L[p].pc = "pw_ww"
  /\ IF S[p].wk = L[p].curw THEN LSet(p, [pc |-> "f_pend"]) ELSE LSet(p, [pc |-> "lock", csk |-> "exists"])
  /\ UNCHANGED <<C, S, token, woken, now, G>>
AbwLoad(p) ==      \* async_blocking_wait: spins / sleeps until the final state arrives
  /\ L[p].pc = "abw_load" /\ S[p].st \in Final
  /\ LET k == L[p].kind IN
     IF L[p].ctx = "poll" THEN LSet(p, [pc |-> "f_result"])
     ELSE IF S[p].st = "UNLOCKED" THEN LSet(p, [pc |-> IF k = "asend" THEN "ret" ELSE "dropval"])
     ELSE LSet(p, [pc |-> IF k = "asend" THEN "dropdata" ELSE "ret"])
  /\ UNCHANGED <<C, S, token, woken, now, G>>
AbwSpin(p) ==      \* a load of async_blocking_wait that still sees a non-final state
  /\ L[p].pc = "abw_load" /\ S[p].st \notin Final /\ UNCHANGED vars
FResult(p) ==      \* Poll::Ready from the signal state
  /\ L[p].pc = "f_result"
  /\ LET k == L[p].kind IN
     IF S[p].st = "UNLOCKED" THEN
        IF k = "asend" THEN LSet(p, [res |-> "Ok", pc |-> "ret"])
        ELSE /\ Assert(S[p].slot # NOMSG, "future reads an unwritten slot")
             /\ LSet(p, [res |-> "Ok", val |-> S[p].slot, pc |-> "deliver"])
     ELSE LSet(p, [res |-> "Closed", pc |-> IF k = "asend" THEN "dropdata" ELSE "ret"])
  /\ UNCHANGED <<C, S, token, woken, now, G>>

\* =========================================================================
\* endings
\* =========================================================================
Deliver(p) ==      \* the caller gets the value(s)
  /\ L[p].pc = "deliver"
  /\ G' = [G EXCEPT !.delivered = IF L[p].kind = "drain" THEN BumpAll(@, L[p].vec) ELSE Bump(@, L[p].val)]
  /\ IF L[p].kind = "stream" /\ L[p].waits + 1 < MaxWaits
       THEN LSet(p, [pc |-> "f_idle", waits |-> L[p].waits + 1])
       ELSE LSet(p, [pc |-> "ret"])
  /\ UNCHANGED <<C, S, token, woken, now>>
DropVal(p) ==      \* a dropped receive future had been given a value: it destroys it (documented caveat)
  /\ L[p].pc = "dropval" /\ Assert(S[p].slot # NOMSG, "drop of an unwritten slot")
  /\ G' = [G EXCEPT !.dropped = Bump(@, S[p].slot)] /\ LSet(p, [pc |-> "ret"])
  /\ UNCHANGED <<C, S, token, woken, now>>
DropData(p) ==     \* sender-side disposal: dropped, or handed back through the Option
  /\ L[p].pc = "dropdata"
  /\ G' = [G EXCEPT !.dropped = Bump(@, L[p].msg)] /\ LSet(p, [pc |-> "ret"])
  /\ UNCHANGED <<C, S, token, woken, now>>
Ret(p) ==          \* the public call returns; the frame / future with its signal is gone
  \* (a terminate loop clears the list only after its last wake: its finished entries are never used again)
  /\ L[p].pc = "ret" /\ Assert(~InWl(p) \/ (C.lock # NOPROC /\ L[C.lock].cont = "term"), "returned while still listed")
  /\ S' = [S EXCEPT ![p] = NilSig]
  /\ LSet(p, [pc |-> IF L[p].kind = "drop" /\ L[p].hs = 1 THEN "gone" ELSE "idle", fst |-> "None",
              hs |-> IF L[p].kind = "drop" THEN L[p].hs - 1 ELSE IF L[p].kind = "clone" THEN L[p].hs + 1 ELSE L[p].hs])
  /\ UNCHANGED <<C, token, woken, now, G>>

Step(p) ==
  \/ (\E k \in SMenu \cup RMenu, d \in Durations : Begin(p, k, d))
  \/ Now0(p) \/ (\E w \in WakersOf(p) : PollBegin(p, w)) \/ FutDrop(p)
  \/ Lock(p) \/ TryLockFail(p) \/ Unlock(p) \/ CsNow(p)
  \/ RzFw(p) \/ RzClone(p) \/ RwFw(p) \/ RwClone(p)
  \/ ARead(p) \/ HandWrite(p) \/ KpRead(p)
  \/ KCas(p) \/ KClone(p) \/ KStore(p) \/ KUnpark(p) \/ KAClone(p) \/ KAStore(p) \/ KAWake(p)
  \/ WLoad0(p) \/ WSpin(p) \/ WSetThr(p) \/ WCas(p) \/ WPark(p) \/ WChk(p) \/ WDone(p)
  \/ TwSpin1(p) \/ TwSkip1(p) \/ TwNow(p) \/ TwLoad(p) \/ TwFinal(p) \/ TwIsTerm(p)
  \/ FPend(p) \/ PwLoad(p) \/ PwWillWake(p) \/ AbwLoad(p) \/ FResult(p)
  \/ Deliver(p) \/ DropVal(p) \/ DropData(p) \/ Ret(p)

Next == Tick \/ \E p \in Procs : Step(p)
Spec == Init /\ [][Next]_vars

\* =========================================================================
\* properties
\* =========================================================================
InQueue(m) == \E j \in 1..Len(C.queue) : C.queue[j] = m
\* C01 / C05: a message is never handed over or destroyed twice
Once == \A m \in G.created : Cnt(G.delivered, m) + Cnt(G.dropped, m) <= 1
\* C08: the buffer never exceeds the capacity
CapOK == Len(C.queue) <= Cap
\* shape of the waiting list the code relies on
WaitShape ==
  /\ (C.wl # <<>> /\ C.rb) => C.queue = <<>> \/ C.lock # NOPROC
  /\ (C.wl # <<>> /\ ~C.rb) => Len(C.queue) = Cap \/ C.lock # NOPROC
  /\ \A a, b \in 1..Len(C.wl) : a # b => C.wl[a] # C.wl[b]
  /\ \A a \in 1..Len(C.wl) : (C.wl[a] \in Receivers) = C.rb
\* listed signals are armed, except while a terminate loop is walking the list (D4 breaks this)
ListedAreArmed ==
  \A a \in 1..Len(C.wl) : S[C.wl[a]].st \in {"LOCKED", "STARV"}
                          \/ (C.lock # NOPROC /\ L[C.lock].cont = "term")
\* C10: closed (by a successful close(); ghost G.closed) is final: both counts stay 0, and once the closer has left
\* its critical section nobody is listed and nothing is buffered. (Both counts can also reach 0 through drops of the
\* last handles; then buffered messages stay in the queue until the channel is deallocated.)
ClosedShape == G.closed => (C.sc = 0 /\ C.rc = 0 /\ (C.lock # NOPROC \/ (C.wl = <<>> /\ C.queue = <<>>)))
\* C11: once one side has no handle left nobody stays listed (the last drop terminates every waiter)
DisconnectShape == (C.sc = 0 \/ C.rc = 0) => (C.lock # NOPROC \/ C.wl = <<>>)
\* C07 (design level): a claimer only touches a signal that is still alive and not yet finished by it
Claiming(q) == L[q].pc \in {"hw", "kp_read", "k_cas", "k_clone", "k_store", "ka_clone", "ka_store"}
NoAccessToDeadSignal == \A q \in Procs : Claiming(q) => S[L[q].tgt].st # "NIL"
\* C07: the thread handle / waker used by a claimer exists
\* C06 / C16: a completed pending future has had its latest waker woken once nobody is still waking it
Waking(p) == \E q \in Procs : L[q].tgt = p /\ L[q].pc \in {"ka_clone", "ka_store", "ka_wake"}
LatestWoken == \A p \in Procs :
   (L[p].pc = "f_idle" /\ L[p].fst = "Waiting" /\ S[p].st \in Final /\ ~Waking(p)) => L[p].curw \in woken
\* C13: a timeout is never reported before the deadline
TimeoutNotEarly == \A p \in Procs : L[p].res = "Timeout" => now >= L[p].dl
\* C14: try_ / drain operations have no waiting states
TryNeverWaits == \A p \in Procs : L[p].kind \in TryKinds \cup {"drain"} =>
                    L[p].pc \notin {"w_load0", "w_spin", "w_setthr", "w_cas", "w_park", "w_chk", "tw_spin1", "tw_now", "f_pend"}
\* C14 / C17: the lock holder always has a step (never parks / waits while holding the lock)
LockHolderRuns == C.lock # NOPROC => ENABLED Step(C.lock)

\* terminal states: every process is finished or legitimately blocked; nothing leaked (C01, C05, C06)
Terminal == \A p \in Procs : ~ENABLED Step(p)
Blocked(p) == \/ L[p].pc = "w_park" /\ S[p].st = "STARV" /\ InWl(p)
              \/ L[p].pc = "f_idle" /\ L[p].fst = "Waiting" /\ S[p].st = "LOCKED" /\ InWl(p)
NoStuck == Terminal => \A p \in Procs : L[p].pc \in {"idle", "gone"} \/ Blocked(p)
\* C06 as a temporal property: under weak fairness of every process (a scheduled thread keeps running) every
\* operation that has started returns, or ends up legitimately blocked (listed, armed, nobody to serve it)
Fairness == WF_vars(Tick) /\ \A p \in Procs : WF_vars(Step(p))
\* a timed wait whose deadline lies beyond the bounded model clock can spin for ever in the model only
BeyondClock(p) == L[p].kind \in TimedKinds /\ L[p].pc # "now0" /\ L[p].dl > MaxNow
FairSpec == Spec /\ Fairness
Busy(p) == L[p].pc \notin {"idle", "gone"} /\ ~Blocked(p) /\ ~BeyondClock(p)
Completes == \A p \in Procs : Busy(p) ~> ~Busy(p)
\* a released waiter (final state stored into its signal) always gets to return
ReleasedReturns == \A p \in Procs : (S[p].st \in Final /\ L[p].pc \in {"w_park", "w_spin", "w_chk", "tw_now", "tw_load"}) ~> (S[p].st = "NIL" \/ BeyondClock(p))
NoLeak == Terminal => \A m \in G.created :
             \/ Cnt(G.delivered, m) + Cnt(G.dropped, m) = 1
             \/ InQueue(m)
             \/ \E p \in Procs : Blocked(p) /\ S[p].slot = m
\* C02: deliveries respect the order in which the channel accepted the messages of one producer
RECURSIVE Filter(_, _)
Filter(s, p) == IF s = <<>> THEN <<>> ELSE (IF Head(s)[1] = p THEN <<Head(s)>> ELSE <<>>) \o Filter(Tail(s), p)
Increasing(s) == \A a, b \in 1..Len(s) : a < b => s[a][2] < s[b][2]
PerProducerFifo == \A p \in Senders : Increasing(Filter(G.order, p))
\* C02 at design level: values are handed out in the order the channel accepted them (buffered, registered as a
\* blocked / pending sender, or handed over directly); cancelled ones simply never appear in the hand-out order
InOrder(m) == \E k \in 1..Len(G.order) : G.order[k] = m
Fifo == SelectSeq(G.acc, InOrder) = G.order
\* stronger, state form: a value is never handed out while a value accepted before it is still waiting in the channel
Present(m) == InQueue(m) \/ \E k \in 1..Len(C.wl) : S[C.wl[k]].slot = m
FifoNow == \A a, b \in 1..Len(G.acc) : (a < b /\ InOrder(G.acc[b])) => (InOrder(G.acc[a]) \/ ~Present(G.acc[a]))
=============================================================================
