SPECIFICATION HSpec
CONSTANTS
  Senders = {s1, s2}
  Receivers = {r1, r2}
  Closers = {}
  Cap = 0
  MaxOps = 3
  SpinMax = 2
  MaxSpur = 1
  MaxWaits = 2
  SMenu = {"send", "try_send", "try_send_rt", "send_to", "send_opt", "asend", "close", "drop", "clone", "len"}
  RMenu = {"recv", "try_recv", "try_recv_rt", "recv_to", "arecv", "stream", "drain", "close", "drop", "clone", "len"}
  Wk <- WkSet
  MaxNow = 2
  FIX = TRUE
INVARIANTS PrintHist
CHECK_DEADLOCK FALSE
