SPECIFICATION TSpec
CONSTANTS
  Senders = {0, 1}
  Receivers = {2, 3}
  Closers = {4}
  Cap <- TraceCap
  MaxOps = 1000
  SpinMax = 100000
  MaxSpur = 1000
  MaxWaits = 1000
  SMenu <- AllSendKinds
  RMenu <- AllRecvKinds
  Wk <- TWk
  WakersOf <- TWakersOf
  NOMSG <- TNoMsg
  NOPROC <- TNoProc
  MaxNow = 100000000
  FIX = TRUE
CONSTRAINT Track
INVARIANT TraceInv
POSTCONDITION Post
CHECK_DEADLOCK FALSE
