SPECIFICATION Spec
CONSTANT Prop = "C05"
CONSTRAINT Track
POSTCONDITION Post
CHECK_DEADLOCK FALSE
