------------------------------ MODULE KanalSim ------------------------------
(***************************************************************************)
(* Spec -> impl: Kanal.tla with a history variable, run by TLC in          *)
(* simulation mode.  Each finished behaviour is printed as one JSON line   *)
(* (the per-process programs, the order in which processes took their      *)
(* steps including clock ticks and spurious wake-ups, and the result of    *)
(* every call); tools/replay.py turns it into a harness program plus a     *)
(* schedule to follow, so that the real code is driven through the very    *)
(* interleaving TLC generated and must produce the same call results.      *)
(***************************************************************************)
EXTENDS Kanal, Json

VARIABLES hist, outs
svars == <<vars, hist, outs>>

Label(p) == [p |-> p, pc |-> L[p].pc]
SInit == Init /\ hist = <<>> /\ outs = <<>>
SStep(p) ==
  /\ Step(p)
  /\ hist' = Append(hist, IF L[p].pc = "idle" THEN [p |-> p, pc |-> "begin", kind |-> L'[p].kind, d |-> L'[p].dl]
                          ELSE IF L[p].pc = "f_idle" /\ L'[p].pc # "f_idle" /\ L'[p].ctx = "poll"
                               THEN [p |-> p, pc |-> "poll", w |-> L'[p].curw[2]]
                          ELSE IF L[p].pc = "f_idle" THEN [p |-> p, pc |-> "fdrop"]
                          ELSE Label(p))
  /\ outs' = IF L[p].pc = "ret" THEN Append(outs, [p |-> p, kind |-> L[p].kind, res |-> L[p].res, ctx |-> L[p].ctx])
             ELSE IF L[p].pc = "f_pend" THEN Append(outs, [p |-> p, kind |-> L[p].kind, res |-> "Pending", ctx |-> "poll"])
             ELSE outs
STick == Tick /\ hist' = Append(hist, [p |-> "tick", pc |-> "tick"]) /\ UNCHANGED outs
SNext == STick \/ \E p \in Procs : SStep(p)
SSpec == SInit /\ [][SNext]_svars

Quiet == \A p \in Procs : L[p].pc \in {"idle", "gone"} \/ Blocked(p) \/ L[p].pc = "f_idle"
\* printed once per behaviour: when every process has used up its operations (or is blocked for good)
Finished == Quiet /\ \A p \in Procs : (L[p].pc = "idle" => L[p].opn = MaxOps \/ L[p].hs = 0)
PrintReplay == Finished => PrintT(<<"REPLAY", ToJson([hist |-> hist, outs |-> outs, cap |-> Cap])>>)
=============================================================================
