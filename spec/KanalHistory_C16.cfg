SPECIFICATION Spec
CONSTANT Prop = "C16"
CONSTRAINT Track
POSTCONDITION Post
CHECK_DEADLOCK FALSE
