----------------------------- MODULE KanalTrace -----------------------------
(***************************************************************************)
(* Impl -> spec conformance at hook granularity: validates the raw event   *)
(* trace of real executions (`kh run --raw`) against the implementation-   *)
(* shaped specification Kanal.tla.  Every shim event of the real code is   *)
(* either consumed by exactly the Kanal action whose hook it is (with the  *)
(* results the code saw: loaded states, CAS outcomes, park results, clock  *)
(* values, call results) or belongs to a kind that has no counterpart in   *)
(* the model and is skipped (stuttering).  Steps of the model that have no *)
(* hook (the code between a final load and the return) are silent.  The    *)
(* channel state peeked from the real ChannelInternal before an event must *)
(* equal the model's C.  A rejection is DRIFT: the code no longer follows  *)
(* the model (see DESIGN.md section 5); it is not by itself a violation.   *)
(***************************************************************************)
EXTENDS Kanal, Json, IOUtils

Rec == ndJsonDeserialize(IOEnv.TRACE)
VARIABLE i
tvars == <<vars, i>>
E == Rec[i]
InRange == i <= Len(Rec)

\* constants of the conformance layout (see KanalTrace.cfg)
TraceCap == Rec[1].cap
TNoMsg == 0
TNoProc == 99
TWakersOf(p) == {p * 4 + 1, p * 4 + 2, p * 4 + 3}
TWk == {1}
AllSendKinds == {"send", "try_send", "try_send_rt", "send_to", "send_opt", "asend", "close", "drop", "clone", "len", "noop"}
AllRecvKinds == {"recv", "try_recv", "try_recv_rt", "recv_to", "arecv", "stream", "drain", "close", "drop", "clone", "len", "noop"}

KindOf(op) ==
  CASE op = "send" -> "send"
    [] op \in {"try_send", "try_send_option"} -> "try_send"
    [] op \in {"try_send_realtime", "try_send_option_realtime"} -> "try_send_rt"
    [] op = "send_timeout" -> "send_to"
    [] op = "send_option_timeout" -> "send_opt"
    [] op \in {"recv", "iter_next"} -> "recv"
    [] op = "try_recv" -> "try_recv"
    [] op = "try_recv_realtime" -> "try_recv_rt"
    [] op = "recv_timeout" -> "recv_to"
    [] op = "drain_into" -> "drain"
    [] op = "asend_new" -> "asend"
    [] op = "arecv_new" -> "arecv"
    [] op = "stream_new" -> "stream"
    [] op = "close" -> "close"
    [] op = "drop" -> "drop"
    [] op \in {"clone", "clone_sync", "clone_async"} -> "clone"
    [] op \in {"to_sync", "to_async"} -> "noop"
    [] OTHER -> "len"       \* every observer: lock, read, unlock
StCode(st) == CASE st = "UNLOCKED" -> 0 [] st = "TERM" -> 1 [] st = "LOCKED" -> 2 [] st = "STARV" -> 3 [] OTHER -> 99

TInit ==
  /\ i = 1
  /\ C = [queue |-> <<>>, wl |-> <<>>, rb |-> FALSE, sc |-> 0, rc |-> 0, lock |-> NOPROC]
  /\ S = [p \in Procs |-> NilSig]
  /\ L = [p \in Procs |-> LInit]
  /\ token = [p \in Procs |-> FALSE] /\ woken = {} /\ now = 0
  /\ G = [delivered |-> <<>>, dropped |-> <<>>, created |-> {}, order |-> <<>>, acc |-> <<>>, closed |-> FALSE]

Adv == i' = i + 1
P == E.t

\* the unlocked snapshot of the real ChannelInternal taken before the event equals the model's state
\* (compared at events the model consumes, by a thread that is not looking at a critical section in mid-flight)
PeekOK == ("peek" \in DOMAIN E /\ (C.lock = NOPROC \/ C.lock = E.t)) =>
            /\ E.peek.q = C.queue /\ E.peek.wl = C.wl /\ E.peek.rb = C.rb
            /\ E.peek.sc = C.sc /\ E.peek.rc = C.rc

TReset ==
  /\ InRange /\ E.k = "reset"
  /\ C' = [queue |-> <<>>, wl |-> <<>>, rb |-> FALSE, sc |-> E.sc, rc |-> E.rc, lock |-> NOPROC]
  /\ S' = [p \in Procs |-> NilSig] /\ L' = [p \in Procs |-> LInit]
  /\ token' = [p \in Procs |-> FALSE] /\ woken' = {} /\ now' = 0
  /\ G' = [delivered |-> <<>>, dropped |-> <<>>, created |-> {}, order |-> <<>>, acc |-> <<>>, closed |-> FALSE]
  /\ Adv

\* the clock is raised to the time stamp of the next event (Tick steps)
ClockTo == /\ InRange /\ E.k # "reset" /\ now < E.now /\ now' = E.now /\ UNCHANGED <<C, S, L, token, woken, G, i>>
Timed == E.k = "reset" \/ now = E.now

\* ------------------------------------------------------------------ calls
FutOps == {"poll", "poll_next", "drop_fut"}
TBegin ==
  /\ InRange /\ E.k = "B" /\ Timed /\ PeekOK
  /\ \/ /\ E.op \notin FutOps /\ L[P].pc = "idle"
        /\ LET k == IF E.none THEN "noop" ELSE KindOf(E.op) IN      \* a None option panics before touching the channel
           BeginM(P, k, IF k \in TimedKinds THEN E.d ELSE 0, E.m)
     \/ /\ E.op \in {"poll", "poll_next"} /\ L[P].pc = "f_idle" /\ PollBegin(P, E.w)
     \/ /\ E.op = "drop_fut" /\ L[P].pc = "f_idle" /\ FutDrop(P)
     \/ /\ E.op \in FutOps /\ L[P].pc = "idle" /\ UNCHANGED vars       \* a future the model has already retired
  /\ Adv

ResName(r) == CASE r = "RecvClosed" -> "ReceiveClosed" [] r = "Dropped" -> "Ok" [] OTHER -> r
TEnd ==
  /\ InRange /\ E.k = "E" /\ Timed /\ PeekOK
  /\ \/ /\ L[P].pc = "ret"
        /\ \/ ResName(L[P].res) = E.r
           \/ (L[P].kind = "noop" /\ E.r \in {"Ok", "Panic"})
           \/ (E.r = "None" /\ L[P].res \in {"Closed", "SendClosed"})     \* stream / iterator report the end
        /\ (L[P].kind \in RecvKinds /\ L[P].res = "Ok" /\ L[P].ctx # "drop") => L[P].val = E.v
        /\ (L[P].kind = "drain" /\ L[P].res = "Ok") => E.v = Len(L[P].vec)
        /\ Ret(P)
     \/ /\ L[P].pc = "f_pend" /\ E.r = "Pending" /\ FPend(P)
     \/ /\ L[P].pc = "f_idle" /\ E.r = "Ok" /\ UNCHANGED vars           \* a future was created / a stream wait delivered
     \/ /\ L[P].pc \in {"idle", "gone"} /\ E.r \in {"Ok", "Panic", "None"} /\ UNCHANGED vars
  /\ Adv

\* ------------------------------------------------------------------ hook events consumed by model actions
Ev0(kind) == InRange /\ E.k = kind /\ Timed
Ev(kind) == Ev0(kind) /\ PeekOK
At(pc) == L[P].pc = pc
Own(p) == E.own = p
TgtOwn == E.own = L[P].tgt
LoadOK == E.r = StCode(S[P].st) /\ Own(P)

TAbCas ==   Ev("ab_cas") /\ At("lock") /\ (IF E.r = 1 THEN Lock(P) ELSE TryLockFail(P)) /\ Adv
TAbStore == Ev("ab_store") /\ At("unlock") /\ E.a = 0 /\ Unlock(P) /\ Adv
TNow ==     Ev("now") /\ (  (At("now0") /\ Now0(P)) \/ (At("cs_now") /\ CsNow(P)) \/ (At("tw_now") /\ TwNow(P))) /\ Adv
TLoad ==    Ev("a8_load") /\ LoadOK
            /\ \/ (At("w_load0") /\ WLoad0(P))   \/ (At("w_spin") /\ WSpin(P))     \/ (At("w_chk") /\ WChk(P))
               \/ (At("tw_spin1") /\ TwSpin1(P)) \/ (At("tw_load") /\ TwLoad(P))   \/ (At("tw_final") /\ TwFinal(P))
               \/ (At("tw_isterm") /\ TwIsTerm(P)) \/ (At("pw_load") /\ PwLoad(P))
               \/ (At("abw_load") /\ (AbwLoad(P) \/ AbwSpin(P)))
            /\ Adv
TCas ==     Ev("a8_cas")
            /\ \/ (At("w_cas") /\ Own(P) /\ ((E.r = 1) = (S[P].st = "LOCKED")) /\ WCas(P))
               \/ (At("k_cas") /\ TgtOwn /\ ((E.r = 1) = (S[L[P].tgt].st = "LOCKED")) /\ KCas(P))
            /\ Adv
TStore ==   Ev("a8_store")
            /\ \/ (At("k_store") /\ TgtOwn /\ E.a = StCode(L[P].fin) /\ KStore(P))
               \/ (At("ka_store") /\ TgtOwn /\ E.a = StCode(L[P].fin) /\ KAStore(P))
               \/ (At("lock") /\ L[P].kind = "stream" /\ E.a = 2 /\ S[P].st = "LOCKED" /\ UNCHANGED vars)   \* Signal::reset of a stream
            /\ Adv
TNote ==    Ev0("note")
            /\ \/ (E.a = 1 /\ At("hw") /\ TgtOwn /\ PeekOK /\ HandWrite(P))
               \/ (E.a = 2 /\ At("kp_read") /\ TgtOwn /\ PeekOK /\ KpRead(P))
               \/ (E.a = 2 /\ At("a_read") /\ Own(P) /\ PeekOK /\ ARead(P))
               \/ (E.a = 2 /\ ~At("kp_read") /\ ~At("a_read") /\ Own(P) /\ UNCHANGED vars)    \* the owner reads its own cell back
            /\ Adv
TOwnerSlot == Ev0("owner_slot") /\ (IF At("a_read") THEN PeekOK /\ ARead(P) ELSE UNCHANGED vars) /\ Adv
TCellGet == Ev0("cell_get")
            /\ (IF At("k_clone") THEN TgtOwn /\ PeekOK /\ KClone(P)
                ELSE IF At("w_setthr") THEN Own(P) /\ PeekOK /\ WSetThr(P) ELSE UNCHANGED vars)
            /\ Adv
TPark ==    Ev("park") /\ At("w_park") /\ WPark(P) /\ ((E.r = 1) = token[P]) /\ Adv
TUnpark ==  Ev("unpark") /\ At("k_unpark") /\ E.a = L[P].tgt /\ KUnpark(P) /\ Adv
TFieldWrite == Ev("field_write") /\ Own(P) /\ ((At("rz_fw") /\ RzFw(P)) \/ (At("rw_fw") /\ RwFw(P))) /\ Adv
TFieldRead == Ev0("field_read") /\ (IF At("pw_ww") THEN Own(P) /\ PeekOK /\ PwWillWake(P) ELSE UNCHANGED vars) /\ Adv
TWkClone == Ev0("wk_clone")
            /\ (IF E.b = 1 THEN UNCHANGED vars          \* the executor's own handle on the waker
                ELSE PeekOK /\ (\/ (At("rz_clone") /\ E.a = L[P].curw /\ RzClone(P))
                                \/ (At("rw_clone") /\ E.a = L[P].curw /\ RwClone(P))
                                \/ (At("ka_clone") /\ E.a = S[L[P].tgt].wk /\ KAClone(P))))
            /\ Adv
TWkWake ==  Ev("wk_wake") /\ At("ka_wake") /\ E.a = L[P].wtmp /\ KAWake(P) /\ Adv

SkipKinds == {"fut_born", "fut_dead", "barrier", "a8_rmw", "ab_rmw", "yield", "fence", "current", "thread_clone", "ptr_read", "ptr_write", "ptr_copy", "usize_load",
              "parallelism", "wk_drop", "dead", "D", "start", "finish", "phase", "wait_waker", "tick", "point", "end"}
TSkip == /\ InRange /\ E.k \in SkipKinds /\ (E.k = "end" \/ Timed) /\ UNCHANGED vars /\ Adv

\* model steps without a hook: the code between the owner's final load and its return
Silent == \E p \in Procs : (WDone(p) \/ FResult(p) \/ Deliver(p) \/ DropData(p) \/ DropVal(p) \/ TwSkip1(p)) /\ UNCHANGED i

TNext == TReset \/ ClockTo \/ TBegin \/ TEnd \/ TAbCas \/ TAbStore \/ TNow \/ TLoad \/ TCas \/ TStore \/ TNote
         \/ TOwnerSlot \/ TCellGet \/ TPark \/ TUnpark \/ TFieldWrite \/ TFieldRead \/ TWkClone \/ TWkWake
         \/ TSkip \/ Silent
TSpec == TInit /\ [][TNext]_tvars

Track == /\ TLCSet(2, IF i > TLCGet(2) THEN i ELSE TLCGet(2))
         /\ (i > Len(Rec) => TLCSet("exit", TRUE))
ASSUME TLCSet(2, 0)
Post == IF TLCGet(2) > Len(Rec) THEN TRUE
        ELSE Print(<<"REJECTED-AT", TLCGet(2), Rec[TLCGet(2)]>>, FALSE)
\* design-level invariants are also evaluated on every state a real execution drives the model through
\* (i points at the next unconsumed record, so the state was reached by record i - 1)
TraceInvBody == Once /\ CapOK /\ WaitShape /\ ListedAreArmed /\ NoAccessToDeadSignal /\ Fifo /\ FifoNow /\ TryNeverWaits
                /\ ClosedShape /\ DisconnectShape /\ TimeoutNotEarly
TraceInv == TraceInvBody \/ Print(<<"REJECTED-AT", IF i > 1 THEN i - 1 ELSE 1, "invariant", Rec[IF i > 1 THEN i - 1 ELSE 1]>>, FALSE)
=============================================================================
