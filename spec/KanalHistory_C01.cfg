SPECIFICATION Spec
CONSTANT Prop = "C01"
CONSTRAINT Track
POSTCONDITION Post
CHECK_DEADLOCK FALSE
