SPECIFICATION ASpec
CONSTANTS
  Procs = {0, 1, 2}
  MaxCalls = 6
  CapC = 2
  SOps = {"send", "try_send", "try_send_option", "send_timeout", "send_option_timeout", "asend_new", "close", "drop", "clone", "clone_sync", "sender_count", "receiver_count", "len", "is_full", "is_closed", "is_disconnected"}
  ROps = {"recv", "try_recv", "recv_timeout", "drain_into", "iter_next", "arecv_new", "stream_new", "poll", "poll_next", "drop_fut", "close", "drop", "clone", "clone_async", "receiver_count", "sender_count", "len", "is_terminated", "is_empty"}
  InitS = {0, 1}
  InitR = {2}
INVARIANTS PrintHist ShapeOK OnceL1 CountsOK ListOK NoOrphans
CHECK_DEADLOCK FALSE
