SPECIFICATION Spec
CONSTANTS
  Senders = {s1, s2}
  Receivers = {r1}
  Closers = {}
  Cap = 2
  MaxOps = 3
  SpinMax = 1
  MaxSpur = 1
  MaxWaits = 2
  SMenu = {"send", "try_send"}
  RMenu = {"recv", "try_recv", "close"}
  Wk <- Wk1
  MaxNow = 0
  FIX = TRUE
INVARIANTS Once CapOK WaitShape ListedAreArmed ClosedShape DisconnectShape NoAccessToDeadSignal LatestWoken TimeoutNotEarly TryNeverWaits LockHolderRuns NoStuck NoLeak PerProducerFifo Fifo FifoNow
CHECK_DEADLOCK FALSE
