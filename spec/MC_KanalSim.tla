---- MODULE MC_KanalSim ----
EXTENDS KanalSim
WkSet == {1, 2}
====
