SPECIFICATION FairSpec
CONSTANTS
  Senders = {s1, s2}
  Receivers = {r1}
  Closers = {}
  Cap = 1
  MaxOps = 2
  SpinMax = 1
  MaxSpur = 1
  MaxWaits = 2
  SMenu = {"send", "try_send"}
  RMenu = {"recv", "try_recv", "close"}
  Wk <- Wk1
  MaxNow = 0
  FIX = TRUE
INVARIANTS DisconnectShape NoStuck
PROPERTIES Completes ReleasedReturns
CHECK_DEADLOCK FALSE
