SPECIFICATION Spec
CONSTANTS
  Senders = {s1, s2}
  Receivers = {r1}
  Closers = {}
  Cap = 1
  MaxOps = 2
  SpinMax = 1
  MaxSpur = 1
  MaxWaits = 2
  SMenu = {"asend", "send", "send_to"}
  RMenu = {"arecv", "recv", "drain", "close"}
  Wk <- Wk1
  MaxNow = 1
  FIX = TRUE
INVARIANTS Once CapOK WaitShape ListedAreArmed ClosedShape DisconnectShape NoAccessToDeadSignal LatestWoken TimeoutNotEarly TryNeverWaits LockHolderRuns NoStuck NoLeak PerProducerFifo Fifo FifoNow
CHECK_DEADLOCK FALSE
