----------------------------- MODULE MC_Kanal -----------------------------
(* Model-checking instances of Kanal.tla: constants that cannot be written in a .cfg file *)
EXTENDS Kanal
WkSet == {1, 2}
Wk1 == {1}
=============================================================================
