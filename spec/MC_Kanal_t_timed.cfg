SPECIFICATION Spec
CONSTANTS
  Senders = {s1, s2}
  Receivers = {r1}
  Closers = {}
  Cap = 0
  MaxOps = 2
  SpinMax = 1
  MaxSpur = 1
  MaxWaits = 2
  SMenu = {"send_to", "send_opt", "send"}
  RMenu = {"recv_to", "recv", "close"}
  Wk <- Wk1
  MaxNow = 2
  FIX = TRUE
INVARIANTS Once CapOK WaitShape ListedAreArmed ClosedShape DisconnectShape NoAccessToDeadSignal LatestWoken TimeoutNotEarly TryNeverWaits LockHolderRuns NoStuck NoLeak PerProducerFifo Fifo FifoNow
CHECK_DEADLOCK FALSE
