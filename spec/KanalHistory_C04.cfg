SPECIFICATION Spec
CONSTANT Prop = "C04"
CONSTRAINT Track
POSTCONDITION Post
CHECK_DEADLOCK FALSE
