----------------------------- MODULE KanalAtomic -----------------------------
(***************************************************************************)
(* L1 -- the ideal channel.  Every public operation of kanal is ONE atomic *)
(* step (Lin); a blocking / pending operation is a "register" step plus a  *)
(* "complete" step performed by whoever completes it (a peer, close, the   *)
(* last handle of the other side going away, its own timeout or its own    *)
(* cancellation).  This is the queue-plus-waiting-list reference model of  *)
(* property C18 and the atomic channel of C03; C01, C02, C05, C08-C13, C15,*)
(* C16 and C19 are stated against it.                                      *)
(*                                                                         *)
(* The module is used three ways: (1) KanalAtomicTrace validates recorded  *)
(* histories of the real code (linearizability search), (2) MC_KanalAtomic *)
(* explores it exhaustively against the L0 property predicates, (3) its    *)
(* single-process graph is dumped and replayed into the real code.         *)
(*                                                                         *)
(* Operation semantics is written functionally: Outcomes(p) is the set of  *)
(* successor (channel, waiters, futures, pending-wakes, call) bundles of   *)
(* process p's invoked call.                                               *)
(***************************************************************************)
EXTENDS Naturals, Sequences, FiniteSets, TLC

CONSTANT Procs

VARIABLES
  ch,    \* [buf, ws, wr, sc, rc, cap]: buffer, blocked senders / receivers (waiter ids), handle counts
  wt,    \* waiter id -> [p, sd, fut, m, st, v, by, wk]   (registered / completed, until consumed by its owner)
  F,     \* future id -> [p, f, kind, st, m, term, live]
  pw,    \* sequence of <<completing call id, waker>>: wake-ups kanal still owes
  c,     \* per process: the call in progress
  held,  \* per process: values the caller owns after a call returned (it drops them outside calls)
  cfg    \* [drops, tagged]: whether payloads report drops / carry identities

lvars == <<ch, wt, F, pw, c, held, cfg>>

UNB == 1000000          \* capacity reported for an unbounded channel
Idle == [st |-> "idle", o |-> 0]

SendOps == {"send", "send_timeout", "send_option_timeout", "try_send", "try_send_option",
            "try_send_realtime", "try_send_option_realtime"}
RecvOps == {"recv", "recv_timeout", "try_recv", "try_recv_realtime", "iter_next"}
OptOps  == {"send_option_timeout", "try_send_option", "try_send_option_realtime"}
TryOps  == {"try_send", "try_send_option", "try_send_realtime", "try_send_option_realtime",
            "try_recv", "try_recv_realtime"}
RTOps   == {"try_send_realtime", "try_send_option_realtime", "try_recv_realtime"}
TimedOps == {"send_timeout", "send_option_timeout", "recv_timeout"}
ObsOps  == {"len", "is_empty", "is_full", "capacity", "is_bounded", "sender_count", "receiver_count",
            "is_closed", "is_disconnected", "is_terminated", "stream_is_terminated"}
CloneOps == {"clone", "clone_sync", "clone_async"}
ConvOps == {"to_sync", "to_async"}
NewFutOps == {"asend_new", "arecv_new", "stream_new"}

\* ------------------------------------------------------------------ helpers
RECURSIVE RemoveOne(_, _)
RemoveOne(s, x) == IF s = <<>> THEN <<>>
                   ELSE IF Head(s) = x THEN Tail(s) ELSE <<Head(s)>> \o RemoveOne(Tail(s), x)
InSeq(s, x) == \E i \in 1..Len(s) : s[i] = x
Without(s, id) == SelectSeq(s, LAMBDA y : y # id)
Obl(s) == IF cfg.drops THEN s ELSE <<>>          \* drop obligations exist only for payloads that report drops
B2N(b) == IF b THEN 1 ELSE 0

NewW(p, sd, fut, m, wk) == [p |-> p, sd |-> sd, fut |-> fut, m |-> m, st |-> "reg", v |-> 0, by |-> 0, wk |-> wk]

\* bundle helpers: s is [ch, wt, F, pw]
Cur == [ch |-> ch, wt |-> wt, F |-> F, pw |-> pw]
Out(s, cl) == [ch |-> s.ch, wt |-> s.wt, F |-> s.F, pw |-> s.pw, cl |-> cl]
Fin(cl, r) == [cl EXCEPT !.st = "done", !.r = r]
FinV(cl, r, v) == [cl EXCEPT !.st = "done", !.r = r, !.v = v]

\* complete waiter id (status "ok" / "closed") on behalf of call `by`; a future is owed a wake-up
CompleteW(s, id, st, v, by) ==
  [s EXCEPT !.wt = [@ EXCEPT ![id] = [@ EXCEPT !.st = st, !.v = v, !.by = by]],
            !.pw = IF s.wt[id].fut THEN Append(@, <<by, s.wt[id].wk>>) ELSE @]
RECURSIVE CompleteAll(_, _, _, _)
CompleteAll(s, ids, st, by) ==
  IF ids = <<>> THEN s ELSE CompleteAll(CompleteW(s, Head(ids), st, 0, by), Tail(ids), st, by)

\* a failed send keeps its value: handed back through the Option, or destroyed by the call
FailSend(cl, r) == IF cl.op \in OptOps THEN [Fin(cl, r) EXCEPT !.opt = TRUE]
                   ELSE [Fin(cl, r) EXCEPT !.md = Obl(<<cl.m>>)]

\* ------------------------------------------------------------------ send
\* the common admission test; yields kind in {"closed","rclosed","hand","buf","full"} and the new bundle
SendCore(s, m, by) ==
  IF s.ch.rc = 0 THEN [k |-> IF s.ch.sc = 0 THEN "closed" ELSE "rclosed", s |-> s]
  ELSE IF s.ch.wr # <<>> THEN
       [k |-> "hand", s |-> [CompleteW(s, Head(s.ch.wr), "ok", m, by) EXCEPT !.ch.wr = Tail(s.ch.wr)]]
  ELSE IF Len(s.ch.buf) < s.ch.cap THEN [k |-> "buf", s |-> [s EXCEPT !.ch.buf = Append(@, m)]]
  ELSE [k |-> "full", s |-> s]

SendOutcomes(s, cl, p) ==
  IF cl.none THEN {Out(s, Fin(cl, "Panic"))}                       \* documented panic: None option
  ELSE LET sc == SendCore(s, cl.m, cl.o) IN
    CASE sc.k = "closed"  -> {Out(s, FailSend(cl, "Closed"))}
      [] sc.k = "rclosed" -> {Out(s, FailSend(cl, "ReceiveClosed"))}
      [] sc.k \in {"hand", "buf"} -> {Out(sc.s, Fin(cl, "Ok"))}
      [] sc.k = "full" ->
           IF cl.op \in TryOps THEN {Out(s, FailSend(cl, "Full"))}
           ELSE {Out([s EXCEPT !.wt = (cl.o :> NewW(p, "s", FALSE, cl.m, 0)) @@ @,
                               !.ch.ws = Append(@, cl.o)],
                     [cl EXCEPT !.st = "reg"])}

\* ------------------------------------------------------------------ receive
\* yields kind in {"closed","val","empty"}; "val" carries the value
RecvCore(s, by) ==
  IF s.ch.rc = 0 THEN [k |-> "closed", v |-> 0, s |-> s]
  ELSE IF s.ch.buf # <<>> THEN
       IF s.ch.ws # <<>> THEN
            LET w == Head(s.ch.ws) IN
            [k |-> "val", v |-> Head(s.ch.buf),
             s |-> [CompleteW(s, w, "ok", 0, by) EXCEPT !.ch.buf = Append(Tail(s.ch.buf), s.wt[w].m),
                                                        !.ch.ws = Tail(s.ch.ws)]]
       ELSE [k |-> "val", v |-> Head(s.ch.buf), s |-> [s EXCEPT !.ch.buf = Tail(@)]]
  ELSE IF s.ch.ws # <<>> THEN
       LET w == Head(s.ch.ws) IN
       [k |-> "val", v |-> s.wt[w].m, s |-> [CompleteW(s, w, "ok", 0, by) EXCEPT !.ch.ws = Tail(s.ch.ws)]]
  ELSE [k |-> "empty", v |-> 0, s |-> s]

RecvOutcomes(s, cl, p) ==
  LET rc == RecvCore(s, cl.o)
      err(e) == IF cl.op = "iter_next" THEN "None" ELSE e IN
  CASE rc.k = "closed" -> {Out(s, Fin(cl, err("Closed")))}
    [] rc.k = "val"    -> {Out(rc.s, FinV(cl, "Ok", rc.v))}
    [] rc.k = "empty"  ->
         \* recv_timeout tests its deadline before anything else (the clock decides; checked at End)
         (IF cl.op = "recv_timeout" THEN {Out(s, Fin(cl, "Timeout"))} ELSE {})
         \cup
         (IF s.ch.sc = 0 THEN {Out(s, Fin(cl, err("SendClosed")))}
          ELSE IF cl.op \in TryOps THEN {Out(s, Fin(cl, "Empty"))}
          ELSE {Out([s EXCEPT !.wt = (cl.o :> NewW(p, "r", FALSE, 0, 0)) @@ @,
                              !.ch.wr = Append(@, cl.o)],
                    [cl EXCEPT !.st = "reg"])})

\* a *_realtime call may find the internal lock taken by another call in progress and give up
Contended(s, cl, p) ==
  IF cl.op \in RTOps /\ ~cl.none /\ \E q \in Procs \ {p} : c[q].st # "idle"
  THEN {Out(s, IF cl.op = "try_recv_realtime" THEN Fin(cl, "Empty") ELSE FailSend(cl, "Full"))}
  ELSE {}

\* ------------------------------------------------------------------ close, handles, observers
CloseOutcomes(s, cl) ==
  IF s.ch.sc = 0 /\ s.ch.rc = 0 THEN {Out(s, Fin(cl, "CloseErr"))}
  ELSE LET s1 == CompleteAll(CompleteAll(s, s.ch.ws, "closed", cl.o), s.ch.wr, "closed", cl.o) IN
       {Out([s1 EXCEPT !.ch.sc = 0, !.ch.rc = 0, !.ch.ws = <<>>, !.ch.wr = <<>>, !.ch.buf = <<>>],
            [Fin(cl, "Ok") EXCEPT !.md = Obl(s.ch.buf)])}

DropOutcomes(s, cl) ==
  LET mine  == IF cl.sd = "s" THEN s.ch.sc ELSE s.ch.rc
      other == IF cl.sd = "s" THEN s.ch.rc ELSE s.ch.sc
      s1 == IF mine = 0 THEN s
            ELSE IF cl.sd = "s" THEN [s EXCEPT !.ch.sc = @ - 1] ELSE [s EXCEPT !.ch.rc = @ - 1]
      s2 == IF mine = 1 /\ other # 0
            THEN [CompleteAll(CompleteAll(s1, s1.ch.ws, "closed", cl.o), s1.ch.wr, "closed", cl.o)
                    EXCEPT !.ch.ws = <<>>, !.ch.wr = <<>>]
            ELSE s1 IN
  {Out(s2, Fin(cl, "Ok"))}

CloneOutcomes(s, cl) ==
  {Out(IF cl.sd = "s" THEN (IF s.ch.sc > 0 THEN [s EXCEPT !.ch.sc = @ + 1] ELSE s)
                      ELSE (IF s.ch.rc > 0 THEN [s EXCEPT !.ch.rc = @ + 1] ELSE s), Fin(cl, "Ok"))}

ObsValue(s, cl) ==
  CASE cl.op = "len" -> Len(s.ch.buf)
    [] cl.op = "is_empty" -> B2N(s.ch.buf = <<>>)
    [] cl.op = "is_full" -> B2N(s.ch.cap = Len(s.ch.buf))
    [] cl.op = "capacity" -> s.ch.cap
    [] cl.op = "is_bounded" -> B2N(s.ch.cap # UNB)
    [] cl.op = "sender_count" -> s.ch.sc
    [] cl.op = "receiver_count" -> s.ch.rc
    [] cl.op = "is_closed" -> B2N(s.ch.sc = 0 /\ s.ch.rc = 0)
    [] cl.op = "is_disconnected" -> B2N(IF cl.sd = "s" THEN s.ch.rc = 0 ELSE s.ch.sc = 0)
    [] cl.op \in {"is_terminated", "stream_is_terminated"} -> B2N(s.ch.sc = 0 /\ s.ch.buf = <<>>)

\* ------------------------------------------------------------------ drain_into
RECURSIVE WaiterMsgs(_, _)
WaiterMsgs(w, ids) == IF ids = <<>> THEN <<>> ELSE <<w[Head(ids)].m>> \o WaiterMsgs(w, Tail(ids))
DrainOutcomes(s, cl) ==
  IF s.ch.rc = 0 THEN {Out(s, [Fin(cl, "Closed") EXCEPT !.vs = cl.pre])}
  ELSE LET got == s.ch.buf \o WaiterMsgs(s.wt, s.ch.ws)
           s1 == [CompleteAll(s, s.ch.ws, "ok", cl.o) EXCEPT !.ch.buf = <<>>, !.ch.ws = <<>>] IN
       {Out(s1, [FinV(cl, "Ok", Len(got)) EXCEPT !.vs = cl.pre \o got])}

\* ------------------------------------------------------------------ futures and the stream
FidOf(s, p, f) == CHOOSE id \in DOMAIN s.F : s.F[id].p = p /\ s.F[id].f = f /\ s.F[id].live
HasFut(s, p, f) == \E id \in DOMAIN s.F : s.F[id].p = p /\ s.F[id].f = f /\ s.F[id].live
InFlight(by) == \E q \in Procs : c[q].st # "idle" /\ c[q].o = by
SetF(s, fid, st) == [s EXCEPT !.F[fid].st = st]
DropW(s, fid) == [s EXCEPT !.wt = [x \in DOMAIN @ \ {fid} |-> @[x]]]

NewFutOutcomes(s, cl, p) ==
  LET kind == CASE cl.op = "asend_new" -> "send" [] cl.op = "arecv_new" -> "recv" [] OTHER -> "stream"
      old == {id \in DOMAIN s.F : s.F[id].p = p /\ s.F[id].f = cl.f /\ s.F[id].live}
      F1 == [id \in DOMAIN s.F |-> IF id \in old THEN [s.F[id] EXCEPT !.live = FALSE] ELSE s.F[id]] IN
  {Out([s EXCEPT !.F = (cl.o :> [p |-> p, f |-> cl.f, kind |-> kind, st |-> "zero", m |-> cl.m,
                                 term |-> FALSE, live |-> TRUE]) @@ F1],
       Fin(cl, "Ok"))}

\* poll of a future that is registered (state "wait")
PollWaiting(s, cl, fid) ==
  LET fu == s.F[fid]  w == s.wt[fid]
      stillPending == IF InFlight(w.by) /\ cl.w = w.wk THEN {Out(s, Fin(cl, "Pending"))} ELSE {}
      s1 == DropW(SetF(s, fid, "done"), fid) IN
  CASE w.st = "reg" -> {Out([s EXCEPT !.wt[fid].wk = cl.w], Fin(cl, "Pending"))}
    [] w.st = "ok" ->
         stillPending \cup
         {IF fu.kind = "send" THEN Out(s1, Fin(cl, "Ok")) ELSE Out(s1, FinV(cl, "Ok", w.v))}
    [] w.st = "closed" ->
         stillPending \cup
         {CASE fu.kind = "send" -> Out(s1, [Fin(cl, "Closed") EXCEPT !.md = Obl(<<fu.m>>)])
            [] fu.kind = "recv" -> Out(s1, Fin(cl, "Closed"))
            [] fu.kind = "stream" -> Out([s1 EXCEPT !.F[fid].term = TRUE], Fin(cl, "None"))}

PollZero(s, cl, p, fid) ==
  LET fu == s.F[fid] IN
  IF fu.kind = "send" THEN
     LET sc == SendCore(s, fu.m, cl.o) IN
     CASE sc.k = "closed"  -> {Out(SetF(s, fid, "done"), [Fin(cl, "Closed") EXCEPT !.md = Obl(<<fu.m>>)])}
       [] sc.k = "rclosed" -> {Out(SetF(s, fid, "done"), [Fin(cl, "ReceiveClosed") EXCEPT !.md = Obl(<<fu.m>>)])}
       [] sc.k \in {"hand", "buf"} -> {Out(SetF(sc.s, fid, "done"), Fin(cl, "Ok"))}
       [] sc.k = "full" -> {Out([SetF(s, fid, "wait") EXCEPT !.wt = (fid :> NewW(p, "s", TRUE, fu.m, cl.w)) @@ @,
                                                             !.ch.ws = Append(@, fid)],
                                Fin(cl, "Pending"))}
  ELSE
     LET rc == RecvCore(s, cl.o)
         endv == IF fu.kind = "stream" THEN "None" ELSE "" IN
     CASE rc.k = "closed" ->
            {IF fu.kind = "stream" THEN Out([SetF(s, fid, "done") EXCEPT !.F[fid].term = TRUE], Fin(cl, "None"))
             ELSE Out(SetF(s, fid, "done"), Fin(cl, "Closed"))}
       [] rc.k = "val" -> {Out(SetF(rc.s, fid, "done"), FinV(cl, "Ok", rc.v))}
       [] rc.k = "empty" ->
            IF s.ch.sc = 0 THEN
              {IF fu.kind = "stream" THEN Out([SetF(s, fid, "done") EXCEPT !.F[fid].term = TRUE], Fin(cl, "None"))
               ELSE Out(SetF(s, fid, "done"), Fin(cl, "SendClosed"))}
            ELSE {Out([SetF(s, fid, "wait") EXCEPT !.wt = (fid :> NewW(p, "r", TRUE, 0, cl.w)) @@ @,
                                                   !.ch.wr = Append(@, fid)],
                      Fin(cl, "Pending"))}

PollOutcomes(s, cl, p) ==
  LET fid == FidOf(s, p, cl.f)  fu == s.F[fid] IN
  IF fu.kind = "stream" /\ fu.term THEN {Out(s, Fin(cl, "None"))}
  ELSE CASE fu.st = "zero" -> PollZero(s, cl, p, fid)
         [] fu.st = "wait" -> PollWaiting(s, cl, fid)
         [] fu.st = "done" -> IF fu.kind = "stream" THEN PollZero(s, cl, p, fid)   \* the stream re-arms its future
                              ELSE {Out(s, Fin(cl, "Panic"))}                      \* documented panic

DropFutOutcomes(s, cl, p) ==
  LET fid == FidOf(s, p, cl.f)  fu == s.F[fid]
      gone(x) == [x EXCEPT !.F[fid].live = FALSE] IN
  IF fu.st # "wait" THEN
     {Out(gone(s), [Fin(cl, "Ok") EXCEPT !.md = IF fu.kind = "send" /\ fu.st = "zero" THEN Obl(<<fu.m>>) ELSE <<>>])}
  ELSE LET w == s.wt[fid]  s1 == gone(DropW(s, fid)) IN
     CASE w.st = "reg" ->   \* cancelled: leaves the waiting list; a send future destroys its value
            {Out([s1 EXCEPT !.ch.ws = Without(@, fid), !.ch.wr = Without(@, fid)],
                 [Fin(cl, "Ok") EXCEPT !.md = IF fu.kind = "send" THEN Obl(<<fu.m>>) ELSE <<>>])}
       [] w.st = "ok" ->    \* a receive future that was already given a value destroys it (documented caveat)
            {Out(s1, [Fin(cl, "Ok") EXCEPT !.md = IF fu.kind = "send" THEN <<>> ELSE Obl(<<w.v>>)])}
       [] w.st = "closed" ->
            {Out(s1, [Fin(cl, "Ok") EXCEPT !.md = IF fu.kind = "send" THEN Obl(<<fu.m>>) ELSE <<>>])}

\* ------------------------------------------------------------------ the atomic step of a call
Outcomes(p) ==
  LET s == Cur  cl == c[p] IN
  CASE cl.op \in SendOps -> SendOutcomes(s, cl, p) \cup Contended(s, cl, p)
    [] cl.op \in RecvOps -> RecvOutcomes(s, cl, p) \cup Contended(s, cl, p)
    [] cl.op = "close" -> CloseOutcomes(s, cl)
    [] cl.op = "drop" -> DropOutcomes(s, cl)
    [] cl.op \in CloneOps -> CloneOutcomes(s, cl)
    [] cl.op \in ConvOps -> {Out(s, Fin(cl, "Ok"))}
    [] cl.op \in ObsOps -> {Out(s, FinV(cl, "Ok", ObsValue(s, cl)))}
    [] cl.op = "drain_into" -> DrainOutcomes(s, cl)
    [] cl.op \in NewFutOps -> NewFutOutcomes(s, cl, p)
    [] cl.op \in {"poll", "poll_next"} -> PollOutcomes(s, cl, p)
    [] cl.op = "drop_fut" -> DropFutOutcomes(s, cl, p)

Apply(p, o) == /\ ch' = o.ch /\ wt' = o.wt /\ F' = o.F /\ pw' = o.pw
               /\ c' = [c EXCEPT ![p] = o.cl]
               /\ UNCHANGED <<held, cfg>>

Lin(p) == /\ c[p].st = "inv"
          /\ \E o \in Outcomes(p) : Apply(p, o)

\* a registered timed call gives up: it leaves the waiting list; whether the clock allows it is checked at End
LinTimeout(p) ==
  /\ c[p].st = "reg" /\ c[p].op \in TimedOps /\ wt[c[p].o].st = "reg"
  /\ LET cl == c[p]
         s1 == [DropW(Cur, cl.o) EXCEPT !.ch.ws = Without(@, cl.o), !.ch.wr = Without(@, cl.o)] IN
     Apply(p, Out(s1, IF cl.sd = "s" THEN FailSend(cl, "Timeout") ELSE Fin(cl, "Timeout")))

\* the owner of a completed registered call learns its result (deterministic; folded into the observers below)
Settled(p) ==
  LET cl == c[p] IN
  IF cl.st # "reg" \/ wt[cl.o].st = "reg" THEN cl
  ELSE LET w == wt[cl.o] IN
       IF w.st = "ok" THEN (IF cl.sd = "s" THEN Fin(cl, "Ok") ELSE FinV(cl, "Ok", w.v))
       ELSE IF cl.sd = "s" THEN FailSend(cl, "Closed")
       ELSE Fin(cl, IF cl.op = "iter_next" THEN "None" ELSE "Closed")

\* values a finished call leaves with its caller
Received(cl) == cl.r = "Ok" /\ cl.op \in (RecvOps \cup {"poll", "poll_next"}) /\ cl.sd = "r"
Leaves(cl) == (IF Received(cl) THEN <<cl.v>> ELSE <<>>)
              \o (IF cl.op = "drain_into" THEN cl.vs ELSE <<>>)
              \o (IF cl.opt THEN <<cl.m>> ELSE <<>>)

LInit(cap, sc, rc, drops, tagged) ==
  /\ ch = [buf |-> <<>>, ws |-> <<>>, wr |-> <<>>, sc |-> sc, rc |-> rc, cap |-> cap]
  /\ wt = <<>> /\ F = <<>> /\ pw = <<>>
  /\ c = [p \in Procs |-> Idle]
  /\ held = [p \in Procs |-> <<>>]
  /\ cfg = [drops |-> drops, tagged |-> tagged]

\* shape invariants of the ideal channel (checked in MC_KanalAtomic and on every validated trace)
ShapeOK ==
  /\ Len(ch.buf) <= ch.cap
  /\ ch.wr # <<>> => ch.buf = <<>> /\ ch.ws = <<>>
  /\ ch.ws # <<>> => Len(ch.buf) = ch.cap
  /\ (ch.sc = 0 \/ ch.rc = 0) => ch.ws = <<>> /\ ch.wr = <<>>
=============================================================================
