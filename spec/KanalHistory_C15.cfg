SPECIFICATION Spec
CONSTANT Prop = "C15"
CONSTRAINT Track
POSTCONDITION Post
CHECK_DEADLOCK FALSE
