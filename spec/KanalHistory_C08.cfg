SPECIFICATION Spec
CONSTANT Prop = "C08"
CONSTRAINT Track
POSTCONDITION Post
CHECK_DEADLOCK FALSE
