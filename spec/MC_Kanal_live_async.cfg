SPECIFICATION FairSpec
CONSTANTS
  Senders = {s1}
  Receivers = {r1}
  Closers = {}
  Cap = 0
  MaxOps = 2
  SpinMax = 1
  MaxSpur = 1
  MaxWaits = 2
  SMenu = {"asend", "try_send"}
  RMenu = {"arecv", "close"}
  Wk <- WkSet
  MaxNow = 0
  FIX = TRUE
INVARIANTS DisconnectShape NoStuck
PROPERTIES Completes ReleasedReturns
CHECK_DEADLOCK FALSE
