SPECIFICATION Spec
CONSTANTS
  Senders = {s1}
  Receivers = {r1}
  Closers = {}
  Cap = 1
  MaxOps = 2
  SpinMax = 1
  MaxSpur = 1
  MaxWaits = 2
  SMenu = {"asend", "send"}
  RMenu = {"arecv", "recv", "drain"}
  Wk <- Wk1
  MaxNow = 0
  FIX = TRUE
INVARIANTS Once CapOK WaitShape ListedAreArmed ClosedShape DisconnectShape NoAccessToDeadSignal LatestWoken TimeoutNotEarly TryNeverWaits LockHolderRuns NoStuck NoLeak PerProducerFifo Fifo FifoNow
CHECK_DEADLOCK FALSE
