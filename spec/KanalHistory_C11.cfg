SPECIFICATION Spec
CONSTANT Prop = "C11"
CONSTRAINT Track
POSTCONDITION Post
CHECK_DEADLOCK FALSE
