------------------------------ MODULE SignalHB ------------------------------
(***************************************************************************)
(* C07 at design level: the lock-free hand-off protocol of one Signal      *)
(* (src/signal.rs) between its owner (the blocked / pending operation      *)
(* whose stack frame or future holds the Signal) and the claimer (the peer *)
(* that popped it from the waiting list), with the memory orderings as     *)
(* CONSTANTS.  The state is a sequentially consistent interleaving; what    *)
(* each thread is *entitled* to rely on is tracked as a happens-before      *)
(* knowledge set (which non-atomic accesses of the other thread are        *)
(* ordered before its current point): release stores / successful release  *)
(* RMWs publish the knowledge of the storing thread at the location,       *)
(* acquire loads / failed acquire CASes / acquire fences after relaxed     *)
(* loads collect it, the channel lock is a release / acquire pair, unpark  *)
(* -> park hands the token's knowledge over.                               *)
(*   NoRace  two accesses to one non-atomic cell (payload slot, waker      *)
(*           cell), one of them a write, are ordered by happens-before;    *)
(*           the owner's return counts as a write to every cell of its     *)
(*           frame / future;                                               *)
(*   NoUAF   the claimer never touches the Signal (not even atomically)    *)
(*           after the owner has returned.                                 *)
(* With the orderings of the code (all constants TRUE) TLC finds no        *)
(* violation for every owner kind (sync, timed, async with waker change)   *)
(* x side (blocked sender / blocked receiver) x termination; weakening any *)
(* single ordering the code needs is refuted (selftest).                   *)
(***************************************************************************)
EXTENDS Naturals, FiniteSets, TLC

CONSTANTS
  Kind,            \* "sync" | "timed" | "async"
  Side,            \* "send": the owner is a blocked sender (claimer reads its slot) | "recv": claimer writes the slot
  MaxSpin, MaxSpur, MaxRepoll,
  \* orderings used by the code (TRUE = as written)
  RelCasK,         \* claimer: compare_exchange(LOCKED, final, Release, _)
  AcqFailK,        \* claimer: compare_exchange(_, _, _, Acquire) on failure (state was LOCKED_STARVATION)
  RelStoreK,       \* claimer: state.store(final, Release)
  RelCasW,         \* owner: compare_exchange(LOCKED, LOCKED_STARVATION, Release, _)
  AcqFailW,        \* owner: ... Acquire on failure (the final state arrived meanwhile)
  AcqFence,        \* owner: fence(Acquire) after a relaxed load saw a final state
  AcqParkLoad,     \* owner: load(Acquire) after park()
  AcqTimedLoad,    \* owner: load(Acquire) after the deadline
  UnlockRel, LockAcq,   \* the channel lock
  RegisterUnderLock     \* async owner: a changed waker is written while holding the channel lock (D6 / fixed tree)

Th == {"w", "k"}
Ev == {"wdata", "wwaker", "kdata", "kwaker", "wuse", "wdead"}
VARIABLES
  pc,        \* thread -> label
  st,        \* Signal state: "LOCKED" | "STARV" | "FINAL"
  listed,    \* the Signal is in the waiting list
  lock,      \* channel lock holder or "none"
  kn,        \* thread -> set of events known to happen-before its current point
  relState, relLock, pend, tok, token,
  acc,       \* cell -> set of <<thread, isWrite, event>> accesses so far
  dead,      \* the owner has returned
  race, uaf, spin, spur, repoll
vars == <<pc, st, listed, lock, kn, relState, relLock, pend, tok, token, acc, dead, race, uaf, spin, spur, repoll>>

Other(t) == IF t = "w" THEN "k" ELSE "w"
\* a non-atomic access of thread t to cell c: races with every earlier conflicting access of the other thread it does not know
Conflicts(t, c, isW) == {a \in acc[c] : a[1] # t /\ (isW \/ a[2]) /\ a[3] \notin kn[t]}
Access(t, c, isW, e) ==
  /\ race' = (race \/ Conflicts(t, c, isW) # {})
  /\ acc' = [acc EXCEPT ![c] = @ \cup {<<t, isW, e>>}]
  /\ kn' = [kn EXCEPT ![t] = @ \cup {e}]
Touch == uaf' = (uaf \/ dead)          \* the claimer touches the Signal's memory

Init ==
  /\ pc = [t \in Th |-> IF t = "w" THEN "w_lock" ELSE "k_lock"]
  /\ st = "LOCKED" /\ listed = FALSE /\ lock = "none"
  /\ kn = [t \in Th |-> {}] /\ relState = {} /\ relLock = {} /\ pend = {} /\ tok = {} /\ token = FALSE
  /\ acc = [c \in {"data", "waker"} |-> {}]
  /\ dead = FALSE /\ race = FALSE /\ uaf = FALSE /\ spin = 0 /\ spur = 0 /\ repoll = 0

Goto(t, l) == pc' = [pc EXCEPT ![t] = l]
Acq(t, s) == kn' = [kn EXCEPT ![t] = @ \cup s]

\* ------------------------------------------------------------------ owner
WLock ==      \* acquire_internal
  /\ pc["w"] \in {"w_lock", "w_relock", "w_cancel"} /\ lock = "none" /\ lock' = "w"
  /\ Acq("w", IF LockAcq THEN relLock ELSE {})
  /\ Goto("w", CASE pc["w"] = "w_lock" -> "w_init" [] pc["w"] = "w_relock" -> "w_rereg" [] OTHER -> "w_cancel2")
  /\ UNCHANGED <<st, listed, relState, relLock, pend, tok, token, acc, dead, race, uaf, spin, spur, repoll>>
WInit ==      \* under the lock: a blocked sender's value is in its slot; an async owner registers its waker; push to the list
  /\ pc["w"] = "w_init"
  /\ IF Side = "send" THEN Access("w", "data", TRUE, "wdata") ELSE UNCHANGED <<race, acc, kn>>
  /\ Goto("w", IF Kind = "async" THEN "w_reg" ELSE "w_push")
  /\ UNCHANGED <<st, listed, lock, relState, relLock, pend, tok, token, dead, uaf, spin, spur, repoll>>
WReg ==       \* register_waker (first poll), under the lock
  /\ pc["w"] = "w_reg" /\ Access("w", "waker", TRUE, "wwaker") /\ Goto("w", "w_push")
  /\ UNCHANGED <<st, listed, lock, relState, relLock, pend, tok, token, dead, uaf, spin, spur, repoll>>
WPush ==
  /\ pc["w"] = "w_push" /\ listed' = TRUE /\ Goto("w", "w_unlock")
  /\ UNCHANGED <<st, lock, kn, relState, relLock, pend, tok, token, acc, dead, race, uaf, spin, spur, repoll>>
WUnlock ==
  /\ pc["w"] \in {"w_unlock", "w_unlock2", "w_unlock3", "w_unlock4"} /\ lock' = "none"
  /\ relLock' = IF UnlockRel THEN kn["w"] ELSE {}
  /\ Goto("w", CASE pc["w"] = "w_unlock" -> "w_load"
                 [] pc["w"] = "w_unlock2" -> "w_load"        \* re-registered, still pending
                 [] pc["w"] = "w_unlock3" -> "w_ret"         \* cancelled (timeout / future dropped): nobody else has the Signal
                 [] OTHER -> "w_latewrite")                  \* !RegisterUnderLock: the waker is written after the unlock
  /\ UNCHANGED <<st, listed, kn, relState, pend, tok, token, acc, dead, race, uaf, spin, spur, repoll>>
\* wait / poll / wait_timeout / async_blocking_wait: load(Relaxed), fence(Acquire) once a final state is seen
WLoad ==
  /\ pc["w"] = "w_load"
  /\ pend' = pend \cup relState
  /\ IF st = "FINAL" THEN Goto("w", "w_fence") /\ UNCHANGED <<spin>>
     ELSE \/ spin < MaxSpin /\ spin' = spin + 1 /\ UNCHANGED pc
          \/ Kind \in {"sync", "timed"} /\ Goto("w", "w_setwaker") /\ UNCHANGED spin   \* (a timed owner parks like a sync one after a failed cancel)
          \/ Kind = "timed" /\ Goto("w", "w_deadline") /\ UNCHANGED spin
          \/ Kind = "async" /\ repoll < MaxRepoll /\ Goto("w", "w_relock") /\ UNCHANGED spin      \* polled again with a new waker
          \/ Kind \in {"async", "timed"} /\ Goto("w", "w_cancel") /\ UNCHANGED spin                \* dropped / (timed: via deadline)
  /\ UNCHANGED <<st, listed, lock, kn, relState, relLock, tok, token, acc, dead, race, uaf, spur, repoll>>
WFence ==
  /\ pc["w"] = "w_fence" /\ Acq("w", IF AcqFence THEN pend ELSE {}) /\ Goto("w", "w_use")
  /\ UNCHANGED <<st, listed, lock, relState, relLock, pend, tok, token, acc, dead, race, uaf, spin, spur, repoll>>
\* sync owner about to park: *waker.get() = Some(thread::current()); CAS(LOCKED -> LOCKED_STARVATION, Release, Acquire)
WSetWaker ==
  /\ pc["w"] = "w_setwaker" /\ Access("w", "waker", TRUE, "wwaker") /\ Goto("w", "w_cas")
  /\ UNCHANGED <<st, listed, lock, relState, relLock, pend, tok, token, dead, uaf, spin, spur, repoll>>
WCas ==
  /\ pc["w"] = "w_cas"
  /\ IF st = "LOCKED"
       THEN /\ st' = "STARV" /\ relState' = relState \cup (IF RelCasW THEN kn["w"] ELSE {})
            /\ Goto("w", "w_park") /\ UNCHANGED kn
       ELSE /\ Acq("w", IF AcqFailW THEN relState ELSE {}) /\ Goto("w", "w_use") /\ UNCHANGED <<st, relState>>
  /\ UNCHANGED <<listed, lock, relLock, pend, tok, token, acc, dead, race, uaf, spin, spur, repoll>>
WPark ==      \* thread::park(): returns with the token (unpark happens-before) or spuriously
  /\ pc["w"] = "w_park"
  /\ \/ token /\ token' = FALSE /\ Acq("w", tok) /\ UNCHANGED spur
     \/ ~token /\ spur < MaxSpur /\ spur' = spur + 1 /\ UNCHANGED <<token, kn>>
  /\ Goto("w", "w_chk")
  /\ UNCHANGED <<st, listed, lock, relState, relLock, pend, tok, acc, dead, race, uaf, spin, repoll>>
WChk ==       \* load(Acquire) after park
  /\ pc["w"] = "w_chk"
  /\ Acq("w", IF AcqParkLoad THEN relState ELSE {})
  /\ Goto("w", IF st = "FINAL" THEN "w_use" ELSE "w_park")
  /\ UNCHANGED <<st, listed, lock, relState, relLock, pend, tok, token, acc, dead, race, uaf, spin, spur, repoll>>
\* timed owner after the deadline: load(Acquire) == UNLOCKED, else cancel under the lock
WDeadline ==
  /\ pc["w"] = "w_deadline"
  /\ Acq("w", IF AcqTimedLoad THEN relState ELSE {})
  /\ Goto("w", IF st = "FINAL" THEN "w_use" ELSE "w_cancel")
  /\ UNCHANGED <<st, listed, lock, relState, relLock, pend, tok, token, acc, dead, race, uaf, spin, spur, repoll>>
WCancel ==    \* cancel_*_signal under the lock: still listed -> removed, the owner is alone; else a claimer owns it: wait
  /\ pc["w"] = "w_cancel2"
  /\ IF listed THEN listed' = FALSE /\ Goto("w", "w_unlock3")
     ELSE UNCHANGED listed /\ Goto("w", "w_unlock")
  /\ UNCHANGED <<st, lock, kn, relState, relLock, pend, tok, token, acc, dead, race, uaf, spin, spur, repoll>>
\* async owner polled with a different waker: under the lock, if still listed, replace the waker
WRereg ==
  /\ pc["w"] = "w_rereg" /\ repoll' = repoll + 1
  /\ IF listed
       THEN IF RegisterUnderLock
              THEN Access("w", "waker", TRUE, "wwaker") /\ Goto("w", "w_unlock2")
              ELSE UNCHANGED <<race, acc, kn>> /\ Goto("w", "w_unlock4")
       ELSE UNCHANGED <<race, acc, kn>> /\ Goto("w", "w_unlock")       \* claimed: async_blocking_wait
  /\ UNCHANGED <<st, listed, lock, relState, relLock, pend, tok, token, dead, uaf, spin, spur>>
WLateWrite == \* (only when RegisterUnderLock = FALSE)
  /\ pc["w"] = "w_latewrite" /\ Access("w", "waker", TRUE, "wwaker") /\ Goto("w", "w_load")
  /\ UNCHANGED <<st, listed, lock, relState, relLock, pend, tok, token, dead, uaf, spin, spur, repoll>>
WUse ==       \* the transfer is complete: a blocked receiver reads the value out of its slot
  /\ pc["w"] = "w_use"
  /\ IF Side = "recv" THEN Access("w", "data", FALSE, "wuse") ELSE UNCHANGED <<race, acc, kn>>
  /\ Goto("w", "w_ret")
  /\ UNCHANGED <<st, listed, lock, relState, relLock, pend, tok, token, dead, uaf, spin, spur, repoll>>
WRet ==       \* the call returns / the future is dropped: the frame with the Signal, its slot and its waker cell is gone
  /\ pc["w"] = "w_ret" /\ dead' = TRUE
  /\ race' = (race \/ Conflicts("w", "data", TRUE) # {} \/ Conflicts("w", "waker", TRUE) # {})
  /\ Goto("w", "w_done")
  /\ UNCHANGED <<st, listed, lock, kn, relState, relLock, pend, tok, token, acc, uaf, spin, spur, repoll>>

\* ------------------------------------------------------------------ claimer
KLock ==
  /\ pc["k"] = "k_lock" /\ lock = "none" /\ listed /\ lock' = "k"
  /\ Acq("k", IF LockAcq THEN relLock ELSE {}) /\ Goto("k", "k_pop")
  /\ UNCHANGED <<st, listed, relState, relLock, pend, tok, token, acc, dead, race, uaf, spin, spur, repoll>>
KPop ==
  /\ pc["k"] = "k_pop" /\ listed' = FALSE /\ Goto("k", "k_unlock")
  /\ UNCHANGED <<st, lock, kn, relState, relLock, pend, tok, token, acc, dead, race, uaf, spin, spur, repoll>>
KUnlock ==
  /\ pc["k"] = "k_unlock" /\ lock' = "none" /\ relLock' = IF UnlockRel THEN kn["k"] ELSE {}
  /\ Goto("k", "k_data")
  /\ UNCHANGED <<st, listed, kn, relState, pend, tok, token, acc, dead, race, uaf, spin, spur, repoll>>
KData ==      \* ptr.read() out of a blocked sender's slot / ptr.write() into a blocked receiver's slot (or nothing: terminate)
  /\ pc["k"] = "k_data" /\ Touch
  /\ \/ Access("k", "data", Side = "recv", "kdata")
     \/ UNCHANGED <<race, acc, kn>>                        \* terminate(): no payload access
  /\ Goto("k", IF Kind = "async" THEN "k_waker" ELSE "k_cas")
  /\ UNCHANGED <<st, listed, lock, relState, relLock, pend, tok, token, dead, spin, spur, repoll>>
KCas ==       \* sync / timed owner: compare_exchange(LOCKED, final, Release, Acquire)
  /\ pc["k"] = "k_cas" /\ Touch
  /\ IF st = "LOCKED"
       THEN /\ st' = "FINAL" /\ relState' = relState \cup (IF RelCasK THEN kn["k"] ELSE {})
            /\ Goto("k", "k_done") /\ UNCHANGED kn
       ELSE /\ Acq("k", IF AcqFailK THEN relState ELSE {}) /\ Goto("k", "k_waker") /\ UNCHANGED <<st, relState>>
  /\ UNCHANGED <<listed, lock, relLock, pend, tok, token, acc, dead, race, spin, spur, repoll>>
KWaker ==     \* clone the thread handle / the async waker out of the Signal
  /\ pc["k"] = "k_waker" /\ Touch /\ Access("k", "waker", FALSE, "kwaker") /\ Goto("k", "k_store")
  /\ UNCHANGED <<st, listed, lock, relState, relLock, pend, tok, token, dead, spin, spur, repoll>>
KStore ==     \* state.store(final, Release): the last access of the claimer to the Signal
  /\ pc["k"] = "k_store" /\ Touch
  /\ st' = "FINAL" /\ relState' = IF RelStoreK THEN kn["k"] ELSE {}
  /\ Goto("k", "k_wake")
  /\ UNCHANGED <<listed, lock, kn, relLock, pend, tok, token, acc, dead, race, spin, spur, repoll>>
KWake ==      \* thread.unpark() / waker.wake() through the clone (no access to the Signal)
  /\ pc["k"] = "k_wake" /\ token' = TRUE /\ tok' = tok \cup kn["k"] /\ Goto("k", "k_done")
  /\ UNCHANGED <<st, listed, lock, kn, relState, relLock, pend, acc, dead, race, uaf, spin, spur, repoll>>

Next == WLock \/ WInit \/ WReg \/ WPush \/ WUnlock \/ WLoad \/ WFence \/ WSetWaker \/ WCas \/ WPark \/ WChk
        \/ WDeadline \/ WCancel \/ WRereg \/ WLateWrite \/ WUse \/ WRet
        \/ KLock \/ KPop \/ KUnlock \/ KData \/ KCas \/ KWaker \/ KStore \/ KWake
Spec == Init /\ [][Next]_vars

NoRace == ~race
NoUAF == ~uaf
\* the owner only reaches the point where it uses the result after the claimer's final store
UseAfterFinal == pc["w"] = "w_use" => st = "FINAL"
\* an async / timed owner that cancelled successfully is never touched by a claimer
TypeOK == st \in {"LOCKED", "STARV", "FINAL"} /\ lock \in {"none", "w", "k"}
=============================================================================
