SPECIFICATION Spec
CONSTANT Prop = "C10"
CONSTRAINT Track
POSTCONDITION Post
CHECK_DEADLOCK FALSE
