------------------------------ MODULE SpinCond ------------------------------
(***************************************************************************)
(* C17, the part SpinMutex.tla abstracts to "retry": the back-off loop     *)
(* spin_cond of src/backoff.rs, transcribed.  The condition (try_lock) is  *)
(* scripted: false K times, then true.  With reported parallelism 1 the    *)
(* loop is `while !cond() { yield }`; otherwise a short phase of 4 checks, *)
(* then rounds of                                                          *)
(*      yield_now(); burst; sleep(0); burst; sleep(0); burst;              *)
(*      spins doubles (up to SpinCap); sleep(1 ms)                         *)
(* where a burst is `spins` checks.  One action per observable event       *)
(* (random draw of yield_now, sleep(0), sleep(1ms), OS yield); the burst   *)
(* that follows an event is folded into its action.                        *)
(*   ChecksOK     the loop returns exactly at the first check that is      *)
(*                true: on return the number of checks is K + 1;           *)
(*   NeverIdle    every round checks the condition at least once           *)
(*                (spins >= 1): a waiter cannot miss a free lock for ever; *)
(*   Terminates   (liveness) for every K the loop returns.                 *)
(* SpinCondTrace.tla validates the event sequence of the real spin_cond    *)
(* for scripted K against these actions.                                   *)
(***************************************************************************)
EXTENDS Naturals, TLC

CONSTANTS KS,          \* the scripted values of K to explore
          SpinCap      \* spins stops doubling once it is >= SpinCap (1 << 30 in the code)

VARIABLES pc,          \* "A" short phase, "Y" after the yield of a round, "Z1", "Z2" after the sleeps, "P1" parallelism-1 loop, "ret"
          k, par, calls, spins, i
svars == <<pc, k, par, calls, spins, i>>

Min(a, b) == IF a < b THEN a ELSE b
\* a burst of n checks starting with `calls` checks done: does it reach the (K+1)-th check, which is the first true one?
Hits(n) == k + 1 - calls <= n
AfterBurst(n, nextpc) ==
  IF Hits(n) THEN calls' = k + 1 /\ pc' = "ret" ELSE calls' = calls + n /\ pc' = nextpc

SInit == /\ k \in KS /\ par \in {1, 16}
         /\ calls = 1 /\ spins = 8 /\ i = 0          \* the first check has been made
         /\ pc = IF k = 0 THEN "ret" ELSE IF par = 1 THEN "P1" ELSE "A"

\* parallelism 1: yield_now_std(), then the next check
OsYield == /\ pc = "P1" /\ AfterBurst(1, "P1") /\ UNCHANGED <<k, par, spins, i>>
\* short phase: spin_hint (not an observable event) and the next of the 4 checks; folded into one silent step
ShortPhase == /\ pc = "A"
              /\ IF i < 3 THEN /\ i' = i + 1
                               /\ IF Hits(1) THEN calls' = k + 1 /\ pc' = "ret" ELSE calls' = calls + 1 /\ pc' = "A"
                 ELSE i' = i /\ calls' = calls /\ pc' = "R"
              /\ UNCHANGED <<k, par, spins>>
\* a round: yield_now() (one random draw), burst
RoundYield == /\ pc = "R" /\ AfterBurst(spins, "Z1") /\ UNCHANGED <<k, par, spins, i>>
Sleep0a == /\ pc = "Z1" /\ AfterBurst(spins, "Z2") /\ UNCHANGED <<k, par, spins, i>>
Sleep0b == /\ pc = "Z2" /\ AfterBurst(spins, "S") /\ UNCHANGED <<k, par, spins, i>>
\* geometric back-off, then sleep(1 ms)
Sleep1ms == /\ pc = "S" /\ spins' = IF spins < SpinCap THEN spins * 2 ELSE spins
            /\ pc' = "R" /\ UNCHANGED <<k, par, calls, i>>

SNext == OsYield \/ ShortPhase \/ RoundYield \/ Sleep0a \/ Sleep0b \/ Sleep1ms
SSpec == SInit /\ [][SNext]_svars /\ WF_svars(SNext)

ChecksOK == pc = "ret" => calls = k + 1
NeverIdle == spins >= 1
Terminates == <>(pc = "ret")
=============================================================================
