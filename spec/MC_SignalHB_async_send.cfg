SPECIFICATION Spec
CONSTANTS
  Kind = "async"
  Side = "send"
  MaxSpin = 2
  MaxSpur = 1
  MaxRepoll = 2
  RelCasK = TRUE
  AcqFailK = TRUE
  RelStoreK = TRUE
  RelCasW = TRUE
  AcqFailW = TRUE
  AcqFence = TRUE
  AcqParkLoad = TRUE
  AcqTimedLoad = TRUE
  UnlockRel = TRUE
  LockAcq = TRUE
  RegisterUnderLock = TRUE
INVARIANTS NoRace NoUAF UseAfterFinal TypeOK
CHECK_DEADLOCK FALSE
