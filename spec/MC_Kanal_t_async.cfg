SPECIFICATION Spec
CONSTANTS
  Senders = {s1}
  Receivers = {r1}
  Closers = {}
  Cap = 1
  MaxOps = 3
  SpinMax = 1
  MaxSpur = 2
  MaxWaits = 2
  SMenu = {"asend", "try_send"}
  RMenu = {"arecv", "stream", "try_recv", "close"}
  Wk <- WkSet
  MaxNow = 0
  FIX = TRUE
INVARIANTS Once CapOK WaitShape ListedAreArmed ClosedShape DisconnectShape NoAccessToDeadSignal LatestWoken TimeoutNotEarly TryNeverWaits LockHolderRuns NoStuck NoLeak PerProducerFifo Fifo FifoNow
CHECK_DEADLOCK FALSE
