SPECIFICATION TSpec
CONSTANTS
  Threads = {0, 1, 2, 3, 4}
  MaxOps = 1000
  AcqOrd = "acquire"
  RelOrd = "release"
CONSTRAINT Track
INVARIANTS MutualExclusion TryLockIsOneStep NoRace
POSTCONDITION Post
CHECK_DEADLOCK FALSE
