--------------------------- MODULE KanalAtomicSim ---------------------------
(***************************************************************************)
(* L1 |= L0 on generated behaviours: MC_KanalAtomic with a history         *)
(* variable, run by TLC in simulation mode.  Every finished behaviour is   *)
(* printed as the API history the harness would have recorded (Begin /     *)
(* End / Drop / Wake events); tools/l1l0.py feeds these histories to the   *)
(* L0 monitors of KanalHistory.tla.  A history of the ideal channel that a *)
(* monitor rejects means the monitor demands more than the reference model *)
(* gives (or the reference model lacks the property).                      *)
(***************************************************************************)
EXTENDS MC_KanalAtomic, Json

VARIABLE hist
avars == <<mvars, hist>>

Ev(e) == hist' = Append(hist, e)
RECURSIVE Drops(_, _)
Drops(p, s) == IF s = <<>> THEN <<>> ELSE <<[e |-> "D", p |-> p, t |-> 0, m |-> Head(s)]>> \o Drops(p, Tail(s))

AInit == MInit /\ hist = <<>>
AInvoke(p) == /\ Invoke(p)
              /\ LET cl == c'[p] IN
                 Ev([e |-> "B", p |-> p, t |-> 0, o |-> cl.o, op |-> cl.op, sd |-> cl.sd, hc |-> "", h |-> 0, m |-> cl.m, d |-> 0,
                     f |-> 0, w |-> cl.w, pre |-> 0, spare |-> 0, none |-> FALSE, pv |-> <<>>])
ALin(p) == MLin(p) /\ UNCHANGED hist
AWake(p) == /\ Wake(p)
            /\ hist' = hist \o [k \in 1..Len(SelectSeq(pw, LAMBDA x : x[1] = c[p].o)) |->
                                  [e |-> "W", p |-> p, t |-> 0, w |-> SelectSeq(pw, LAMBDA x : x[1] = c[p].o)[k][2]]]
AReturn(p) ==
  /\ Return(p)
  /\ LET cl == Settled(p) IN
     hist' = hist \o Drops(p, cl.md)
                  \o <<[e |-> "E", p |-> p, t |-> 0, o |-> cl.o, r |-> cl.r, v |-> cl.v, vs |-> cl.vs, opt |-> cl.opt]>>
                  \o Drops(p, Leaves(cl))
ANext == \E p \in Procs : AInvoke(p) \/ ALin(p) \/ AWake(p) \/ AReturn(p)
ASpec == AInit /\ [][ANext]_avars

Done == /\ \A p \in Procs : c[p].st = "idle" /\ (n[p] = MaxCalls \/ (hnd[p].s = 0 /\ hnd[p].r = 0))
        /\ \A id \in DOMAIN F : ~F[id].live          \* every future has been dropped (as the harness epilogue does)
PrintHist == Done => PrintT(<<"HISTORY", ToJson([hist |-> hist, cap |-> CapC, sc |-> Cardinality(InitS), rc |-> Cardinality(InitR),
                                                  left |-> ch.buf])>>)
=============================================================================
