------------------------------ MODULE HBMonitor ------------------------------
(***************************************************************************)
(* C07 (and the memory-ordering half of C17): a happens-before and         *)
(* lifetime monitor run over the memory-event trace of every real          *)
(* execution.  It is not a model of kanal: its actions are the generic     *)
(* events the shim reports (atomic load / store / RMW with the ordering    *)
(* actually passed, fences, non-atomic cell accesses, park / unpark,       *)
(* object death, waker clone / wake / drop).  The execution is a           *)
(* sequentially consistent interleaving; the monitor judges it by the      *)
(* C11 happens-before relation induced by the orderings as written:        *)
(*   NoRace        two accesses to one non-atomic cell, one of them a      *)
(*                 write, must be ordered by happens-before;               *)
(*   NoDeadAccess  the owner's return / drop (death of its Signal) is a    *)
(*                 write to every cell of that frame or future: every      *)
(*                 foreign access must happen-before it, and nothing may   *)
(*                 touch the dead object afterwards;                       *)
(*   WakerLive     a waker is cloned / woken only while a reference to it  *)
(*                 exists.                                                 *)
(* Vector clocks per thread; a release clock per atomic location (release  *)
(* sequences continued by RMWs, cut by relaxed stores); pending-acquire    *)
(* clocks for `load(Relaxed); fence(Acquire)`; FastTrack-style last-write  *)
(* epoch and read clocks per cell.  Deterministic: a trace the monitor     *)
(* cannot consume contains a race / dead access / dead waker use.          *)
(***************************************************************************)
EXTENDS Integers, Sequences, FiniteSets, TLC, Json, IOUtils

Rec == ndJsonDeserialize(IOEnv.TRACE)
Procs == 0..7
Zero == [p \in Procs |-> 0]

VARIABLES
  i,
  vc,      \* thread -> vector clock
  rel,     \* atomic location -> vector clock released there
  pend,    \* thread -> clock collected by relaxed loads, claimed by an acquire fence
  tok,     \* thread -> clock handed over by unpark
  wr,      \* cell -> <<thread, epoch>> of the last write
  rd,      \* cell -> per-thread epoch of the last read
  owner,   \* cell / atomic -> owning process (-1: shared)
  liveA,   \* processes currently inside a public call (their frame exists)
  deadA,   \* atomic objects that died (shim Drop) and have not been re-created at that address; dead future regions (negative ids)
  wk       \* waker -> live references
hvars == <<i, vc, rel, pend, tok, wr, rd, owner, liveA, deadA, wk>>

E == Rec[i]
InRange == i <= Len(Rec)
T == E.t
Max(a, b) == IF a > b THEN a ELSE b
Join(a, b) == [p \in Procs |-> Max(a[p], b[p])]
Get(f, k, d) == IF k \in DOMAIN f THEN f[k] ELSE d
Put(f, k, v) == (k :> v) @@ f
Tick(v, t) == [v EXCEPT ![t] = @ + 1]
\* ordering codes of the shim: 0 Relaxed, 1 Release, 2 Acquire, 3 AcqRel, 4 SeqCst
IsAcq(o) == o \in {2, 3, 4}
IsRel(o) == o \in {1, 3, 4}

Init == /\ i = 1 /\ vc = [p \in Procs |-> Zero] /\ rel = <<>> /\ pend = [p \in Procs |-> Zero]
        /\ tok = [p \in Procs |-> Zero] /\ wr = <<>> /\ rd = <<>> /\ owner = <<>>
        /\ liveA = {} /\ deadA = {} /\ wk = <<>>

Reset == /\ vc' = [p \in Procs |-> Zero] /\ rel' = <<>> /\ pend' = [p \in Procs |-> Zero]
         /\ tok' = [p \in Procs |-> Zero] /\ wr' = <<>> /\ rd' = <<>> /\ owner' = <<>>
         /\ liveA' = {} /\ deadA' = {} /\ wk' = <<>>

Me == vc[T]
\* epoch e = <<thread, clock>> happens-before the current event of T
HB(e) == e[2] <= Me[e[1]]
ReadsHB(c) == \A p \in Procs : Get(rd, c, Zero)[p] <= Me[p]
NoW == <<0, 0>>
NoOwner == <<-1, -1>>

\* ---- lifetime of the objects other threads may reach
Foreign(a) == E.own >= 0 /\ E.own # T
RgId == 0 - (E.rg + 1)                       \* future regions are kept in deadA under negative ids
\* a foreign thread may touch memory of p's stack frame only while p is inside a call, memory of a future only
\* until that future has been dropped, and an atomic object only while it has not been dropped
Reachable(a) == Foreign(a) =>
                  /\ (E.ok = 0 => E.own \in liveA)
                  /\ (E.ok = 1 => RgId \notin deadA)
AtomOK(a) == Reachable(a) /\ (Foreign(a) => a \notin deadA)
CellOK(c) == Reachable(c)

\* ---- atomic operations
Load(a, o) ==
  /\ AtomOK(a)
  /\ IF IsAcq(o) THEN vc' = [vc EXCEPT ![T] = Tick(Join(@, Get(rel, a, Zero)), T)] /\ UNCHANGED pend
     ELSE vc' = [vc EXCEPT ![T] = Tick(@, T)] /\ pend' = [pend EXCEPT ![T] = Join(@, Get(rel, a, Zero))]
  /\ UNCHANGED rel
Store(a, o) ==
  /\ AtomOK(a)
  /\ rel' = Put(rel, a, IF IsRel(o) THEN Me ELSE Zero)       \* a relaxed store cuts the release sequence
  /\ vc' = [vc EXCEPT ![T] = Tick(@, T)] /\ UNCHANGED pend
Rmw(a, ok, so, fo) ==
  /\ AtomOK(a)
  /\ IF ok THEN
        /\ rel' = IF IsRel(so) THEN Put(rel, a, Join(Get(rel, a, Zero), Me)) ELSE rel   \* an RMW continues the sequence
        /\ IF IsAcq(so) THEN vc' = [vc EXCEPT ![T] = Tick(Join(@, Get(rel, a, Zero)), T)] /\ UNCHANGED pend
           ELSE vc' = [vc EXCEPT ![T] = Tick(@, T)] /\ pend' = [pend EXCEPT ![T] = Join(@, Get(rel, a, Zero))]
     ELSE
        /\ UNCHANGED rel
        /\ IF IsAcq(fo) THEN vc' = [vc EXCEPT ![T] = Tick(Join(@, Get(rel, a, Zero)), T)] /\ UNCHANGED pend
           ELSE vc' = [vc EXCEPT ![T] = Tick(@, T)] /\ pend' = [pend EXCEPT ![T] = Join(@, Get(rel, a, Zero))]
Fence(o) ==
  /\ vc' = [vc EXCEPT ![T] = Tick(IF IsAcq(o) THEN Join(@, pend[T]) ELSE @, T)]
  /\ UNCHANGED <<rel, pend>>

\* ---- non-atomic cells
\* a receive-side slot is created uninitialised (owner_slot event with a = 2): reading or consuming it before anybody wrote
\* it is a read of an uninitialised slot
Uninit == <<0, -1>>
IsInit(c) == Get(wr, c, NoW) # Uninit
ReadCell(c) ==
  /\ CellOK(c) /\ IsInit(c)
  /\ HB(Get(wr, c, NoW))                                       \* NoRace: the last write happens-before this read
  /\ rd' = Put(rd, c, [Get(rd, c, Zero) EXCEPT ![T] = Me[T] + 1]) /\ UNCHANGED wr
WriteCell(c) ==
  /\ CellOK(c)
  /\ HB(Get(wr, c, NoW)) /\ ReadsHB(c)                         \* NoRace: every earlier access happens-before this write
  /\ wr' = Put(wr, c, <<T, Me[T] + 1>>) /\ rd' = Put(rd, c, Zero)
TickOnly == vc' = [vc EXCEPT ![T] = Tick(@, T)]

\* the owner's Signal is dropped: its frame / future goes away.  Every cell of that owner must be quiescent
\* (all foreign accesses happen-before now); the cells start a new life.
Death(a) ==
  LET mine == {c \in DOMAIN wr \cup DOMAIN rd : Get(owner, c, NoOwner) = Get(owner, a, <<T, 0>>)} IN
  /\ \A c \in mine : HB(Get(wr, c, NoW)) /\ ReadsHB(c)          \* NoDeadAccess (as a race with the owner's return)
  /\ wr' = [c \in DOMAIN wr \ mine |-> wr[c]] /\ rd' = [c \in DOMAIN rd \ mine |-> rd[c]]
  /\ deadA' = deadA \cup {a} /\ UNCHANGED liveA

\* every address belongs to <<process, group>>: group 0 is the process' stack, group k+1 its future region k
Grp == IF E.ok = 0 THEN 0 ELSE E.rg + 1
Know(a) == owner' = IF E.ad # 0 /\ E.own >= 0 THEN Put(owner, E.ad, <<E.own, Grp>>) ELSE owner

\* the owner using memory of one of its regions again means a new object lives there: atomics that died in that
\* region earlier (a previous future at the same heap address) are forgotten
Revive == deadA' = IF E.own = T /\ E.own >= 0 THEN {a \in deadA : a < 0 \/ Get(owner, a, NoOwner) # <<T, Grp>>} ELSE deadA

AtomicKinds == {"a8_load", "a8_store", "a8_cas", "a8_rmw", "ab_load", "ab_store", "ab_cas", "ab_rmw"}
CellKinds == {"cell_get", "ptr_read", "ptr_write", "field_read", "field_write", "owner_slot"}

Step ==
  /\ InRange
  /\ IF E.k = "reset" THEN Reset
     ELSE IF E.t \notin Procs \/ E.k = "end" THEN UNCHANGED <<vc, rel, pend, tok, wr, rd, owner, liveA, deadA, wk>>
     ELSE IF E.k \in {"B", "E"} THEN
       /\ liveA' = IF E.k = "B" THEN liveA \cup {T} ELSE liveA \ {T}
       \* a new call re-uses the stack frame: objects that died there earlier are gone for good
       /\ deadA' = IF E.k = "B" THEN {a \in deadA : Get(owner, a, NoOwner) # <<T, 0>>} ELSE deadA
       /\ UNCHANGED <<vc, rel, pend, tok, wr, rd, owner, wk>>
     ELSE
       /\ Know(E.ad)
       /\ CASE E.k \in AtomicKinds ->
                 \* (an access by the owner itself re-creates the object at that address)
                 /\ deadA' = IF Foreign(E.ad) THEN deadA ELSE deadA \ {E.ad}
                 /\ UNCHANGED liveA
                 /\ CASE E.k \in {"a8_load", "ab_load"} -> Load(E.ad, E.a)
                      [] E.k \in {"a8_store", "ab_store"} -> Store(E.ad, E.b)
                      [] E.k \in {"a8_cas", "ab_cas"} -> Rmw(E.ad, E.r = 1, E.b \div 256, E.b % 256)
                      [] OTHER -> Rmw(E.ad, TRUE, E.b % 256, 0)
                 /\ UNCHANGED <<tok, wr, rd, wk>>
            [] E.k = "fence" -> Fence(E.a) /\ UNCHANGED <<tok, wr, rd, liveA, deadA, wk>>
            [] E.k \in {"ptr_read", "field_read"} \/ (E.k = "owner_slot" /\ E.a = 0) ->
                 ReadCell(E.ad) /\ TickOnly /\ Revive /\ UNCHANGED <<rel, pend, tok, liveA, wk>>
            [] E.k = "owner_slot" /\ E.a = 2 ->           \* the slot starts a new life, uninitialised
                 /\ CellOK(E.ad) /\ HB(Get(wr, E.ad, NoW)) /\ ReadsHB(E.ad)
                 /\ wr' = Put(wr, E.ad, Uninit) /\ rd' = Put(rd, E.ad, Zero)
                 /\ TickOnly /\ Revive /\ UNCHANGED <<rel, pend, tok, liveA, wk>>
            [] E.k = "owner_slot" /\ E.a = 1 ->           \* assume_init_drop: consumes an initialised slot
                 IsInit(E.ad) /\ WriteCell(E.ad) /\ TickOnly /\ Revive /\ UNCHANGED <<rel, pend, tok, liveA, wk>>
            [] E.k \in {"cell_get", "ptr_write", "field_write"} ->
                 WriteCell(E.ad) /\ TickOnly /\ Revive /\ UNCHANGED <<rel, pend, tok, liveA, wk>>
            [] E.k = "dead" -> Death(E.ad) /\ TickOnly /\ UNCHANGED <<rel, pend, tok, wk>>
            [] E.k = "fut_dead" -> deadA' = deadA \cup {RgId} /\ UNCHANGED <<vc, rel, pend, tok, wr, rd, liveA, wk>>
            [] E.k = "unpark" ->
                 /\ tok' = IF E.a \in Procs THEN [tok EXCEPT ![E.a] = Join(@, Me)] ELSE tok
                 /\ TickOnly /\ UNCHANGED <<rel, pend, wr, rd, liveA, deadA, wk>>
            [] E.k = "park" ->
                 /\ vc' = [vc EXCEPT ![T] = Tick(IF E.r = 1 THEN Join(@, tok[T]) ELSE @, T)]
                 /\ UNCHANGED <<rel, pend, tok, wr, rd, liveA, deadA, wk>>
            [] E.k = "wk_clone" ->
                 \* WakerLive: kanal clones a waker only through a reference that is still alive
                 /\ (E.b = 0 => Get(wk, E.a, 0) > 0)
                 /\ wk' = Put(wk, E.a, Get(wk, E.a, 0) + 1)
                 /\ UNCHANGED <<vc, rel, pend, tok, wr, rd, liveA, deadA>>
            [] E.k = "wk_wake" ->
                 /\ Get(wk, E.a, 0) > 0
                 /\ wk' = IF E.b = 1 THEN Put(wk, E.a, Get(wk, E.a, 0) - 1) ELSE wk
                 /\ UNCHANGED <<vc, rel, pend, tok, wr, rd, liveA, deadA>>
            [] E.k = "wk_drop" ->
                 /\ Get(wk, E.a, 0) > 0
                 /\ wk' = Put(wk, E.a, Get(wk, E.a, 0) - 1)
                 /\ UNCHANGED <<vc, rel, pend, tok, wr, rd, liveA, deadA>>
            [] OTHER -> UNCHANGED <<vc, rel, pend, tok, wr, rd, liveA, deadA, wk>>
  /\ i' = i + 1

Spec == Init /\ [][Step]_hvars
Track == /\ TLCSet(2, IF i > TLCGet(2) THEN i ELSE TLCGet(2))
         /\ (i > Len(Rec) => TLCSet("exit", TRUE))
ASSUME TLCSet(2, 0)
Post == IF TLCGet(2) > Len(Rec) THEN TRUE
        ELSE Print(<<"REJECTED-AT", TLCGet(2), Rec[TLCGet(2)]>>, FALSE)
=============================================================================
