SPECIFICATION Spec
CONSTANT Prop = "C12"
CONSTRAINT Track
POSTCONDITION Post
CHECK_DEADLOCK FALSE
