--------------------------- MODULE SpinMutexTrace ---------------------------
(* Impl -> spec for C17: hook-level traces of threads contending on kanal's real RawMutexLock
   (harness mutex scenario) must be behaviours of SpinMutex.tla: every compare_exchange / store on the lock
   word is the Cas / Unlock action with the outcome the code saw and the orderings the code passed. *)
EXTENDS SpinMutex, Json, IOUtils
Rec == ndJsonDeserialize(IOEnv.TRACE)
VARIABLE i
E == Rec[i]
InRange == i <= Len(Rec)
T == E.t
Adv == i' = i + 1
TInit == i = 1 /\ Init
TReset == InRange /\ E.k = "reset" /\ Adv
          /\ locked' = FALSE /\ pc' = [t \in Threads |-> "idle"] /\ kind' = [t \in Threads |-> "none"]
          /\ n' = [t \in Threads |-> 0] /\ att' = [t \in Threads |-> 0] /\ res' = [t \in Threads |-> "none"]
          /\ seen' = [t \in Threads |-> TRUE] /\ pub' = TRUE /\ lastw' = 0 /\ csid' = 0 /\ raced' = FALSE
TBegin == /\ InRange /\ E.k = "B" /\ Adv
          /\ IF E.op \in {"lock", "try_lock"} THEN Begin(T, E.op) ELSE (pc[T] \in {"held", "held2"} /\ UNCHANGED vars)
TEnd == /\ InRange /\ E.k = "E" /\ Adv /\ UNCHANGED vars
        /\ pc[T] \in {"idle", "held", "held2"}
        /\ (pc[T] = "idle" /\ kind[T] = "try_lock" /\ res[T] = "Busy") => E.r = "Busy"
        /\ E.r = "Busy" => (kind[T] = "try_lock" /\ res[T] = "Busy")
\* compare_exchange(false, true, Acquire, Relaxed): outcome and orderings as the code produced them
TCas == /\ InRange /\ E.k = "ab_cas" /\ Adv /\ pc[T] \in {"cas", "backoff"}
        /\ (E.r = 1) = ~locked /\ E.a = 1
        /\ (E.b \div 256) \in {2, 3, 4}
        /\ Cas(T)
TStore == /\ InRange /\ E.k = "ab_store" /\ Adv /\ E.a = 0 /\ E.b \in {1, 3, 4} /\ Unlock(T)
TAccess == /\ InRange /\ E.k \in {"ptr_write", "ptr_read"} /\ Adv /\ Access(T)
SkipKinds == {"yield", "a8_rmw", "usize_load", "parallelism", "start", "finish", "phase", "end", "fence", "a8_load", "now"}
TSkip == InRange /\ E.k \in SkipKinds /\ Adv /\ UNCHANGED vars
TNext == TReset \/ TBegin \/ TEnd \/ TCas \/ TStore \/ TAccess \/ TSkip
TSpec == TInit /\ [][TNext]_<<vars, i>>
Track == /\ TLCSet(2, IF i > TLCGet(2) THEN i ELSE TLCGet(2))
         /\ (i > Len(Rec) => TLCSet("exit", TRUE))
ASSUME TLCSet(2, 0)
Post == IF TLCGet(2) > Len(Rec) THEN TRUE
        ELSE Print(<<"REJECTED-AT", TLCGet(2), Rec[TLCGet(2)]>>, FALSE)
=============================================================================
