SPECIFICATION ASpec
CONSTANTS
  Procs = {0, 1, 2, 3}
  MaxCalls = 4
  CapC = 0
  SOps = {"send", "try_send", "try_send_option", "try_send_realtime", "try_send_option_realtime", "send_timeout", "send_option_timeout", "asend_new", "close", "drop", "clone", "sender_count", "len", "is_full", "is_closed", "is_disconnected"}
  ROps = {"recv", "try_recv", "try_recv_realtime", "recv_timeout", "drain_into", "iter_next", "arecv_new", "stream_new", "poll", "poll_next", "drop_fut", "close", "drop", "clone", "receiver_count", "is_terminated", "is_empty"}
  InitS = {0, 1}
  InitR = {2, 3}
INVARIANTS PrintHist ShapeOK OnceL1 CountsOK ListOK NoOrphans
CHECK_DEADLOCK FALSE
