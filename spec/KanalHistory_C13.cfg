SPECIFICATION Spec
CONSTANT Prop = "C13"
CONSTRAINT Track
POSTCONDITION Post
CHECK_DEADLOCK FALSE
