SPECIFICATION Spec
CONSTANTS
  Senders = {s1, s2}
  Receivers = {r1, r2}
  Closers = {}
  Cap = 1
  MaxOps = 2
  SpinMax = 1
  MaxSpur = 1
  MaxWaits = 2
  SMenu = {"send", "try_send"}
  RMenu = {"recv", "try_recv"}
  Wk <- Wk1
  MaxNow = 0
  FIX = TRUE
INVARIANTS Once CapOK WaitShape ListedAreArmed ClosedShape DisconnectShape NoAccessToDeadSignal LatestWoken TimeoutNotEarly TryNeverWaits LockHolderRuns NoStuck NoLeak Fifo FifoNow 
CHECK_DEADLOCK FALSE
