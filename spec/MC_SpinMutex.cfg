SPECIFICATION FairSpec
CONSTANTS
  Threads = {t1, t2, t3}
  MaxOps = 3
  AcqOrd = "acquire"
  RelOrd = "release"
INVARIANTS MutualExclusion LockReturnsOnlyWhenHeld TryLockIsOneStep NoRace
PROPERTY Progress
CHECK_DEADLOCK FALSE
