--------------------------- MODULE MC_KanalAtomic ---------------------------
(***************************************************************************)
(* Exhaustive exploration of the ideal channel L1 (KanalAtomic) for small  *)
(* constants: every operation-level interleaving of a menu of calls.       *)
(* Shows that the reference model itself has the listed properties in      *)
(* state form (C01 exactly-once ledger, C05 drop obligations met, C08      *)
(* capacity and waiting-list shape, C10 closed is final, C12 counts equal  *)
(* live handles) -- the model real histories are then compared against.    *)
(* With one process this is the reference graph of C18.                    *)
(***************************************************************************)
EXTENDS KanalAtomic

CONSTANTS MaxCalls, CapC, SOps, ROps, InitS, InitR   \* InitS / InitR: processes starting with a sender / receiver handle

VARIABLES n, hnd, got, gone, made
mvars == <<lvars, n, hnd, got, gone, made>>

MInit == /\ LInit(CapC, Cardinality(InitS), Cardinality(InitR), TRUE, TRUE)
         /\ n = [p \in Procs |-> 0]
         /\ hnd = [p \in Procs |-> [s |-> IF p \in InitS THEN 1 ELSE 0, r |-> IF p \in InitR THEN 1 ELSE 0]]
         /\ got = <<>> /\ gone = <<>> /\ made = {}

Call(p, op, sd, m, f, w) ==
  [o |-> p * 100 + n[p] + 1, op |-> op, sd |-> sd, m |-> m, d |-> 0, f |-> f, w |-> w, pre |-> <<>>,
   none |-> FALSE, st |-> "inv", r |-> "", v |-> 0, vs |-> <<>>, opt |-> FALSE, md |-> <<>>, tB |-> 0]

FutKindOK(p, op) ==
  CASE op \in {"poll", "poll_next", "drop_fut"} -> HasFut(Cur, p, 0)
    [] OTHER -> TRUE

Invoke(p) ==
  /\ c[p].st = "idle" /\ n[p] < MaxCalls
  /\ \E op \in SOps \cup ROps :
       LET sd == IF op \in SOps /\ hnd[p].s > 0 THEN "s" ELSE "r" IN
       /\ (op \in SOps /\ hnd[p].s > 0) \/ (op \in ROps /\ hnd[p].r > 0)
       /\ FutKindOK(p, op)
       /\ (op = "drop" => ~HasFut(Cur, p, 0))      \* a future borrows its handle
       /\ (op \in NewFutOps => ~HasFut(Cur, p, 0))   \* one future slot per process in this model
       /\ (op \in {"poll", "poll_next"} => (op = "poll_next") = (F[FidOf(Cur, p, 0)].kind = "stream"))
       /\ LET sdf == IF op \in {"poll", "poll_next", "drop_fut"}
                     THEN (IF F[FidOf(Cur, p, 0)].kind = "send" THEN "s" ELSE "r") ELSE sd
              m == p * 10 + n[p] + 1 IN
          /\ c' = [c EXCEPT ![p] = Call(p, op, sdf, IF sdf = "s" THEN m ELSE 0, 0, p * 4 + 1)]
          /\ made' = IF op \in SendOps \cup {"asend_new"} THEN made \cup {m} ELSE made
  /\ n' = [n EXCEPT ![p] = @ + 1]
  /\ UNCHANGED <<ch, wt, F, pw, held, cfg, hnd, got, gone>>

MLin(p) ==
  /\ (Lin(p) \/ LinTimeout(p))
  /\ hnd' = IF c[p].st = "inv" /\ c[p].op = "drop" THEN
               (IF c[p].sd = "s" THEN [hnd EXCEPT ![p].s = @ - 1] ELSE [hnd EXCEPT ![p].r = @ - 1])
            ELSE IF c[p].st = "inv" /\ c[p].op \in CloneOps THEN
               (IF c[p].sd = "s" THEN [hnd EXCEPT ![p].s = @ + 1] ELSE [hnd EXCEPT ![p].r = @ + 1])
            ELSE hnd
  /\ UNCHANGED <<n, got, gone, made>>

\* kanal wakes the futures a call completed before that call returns
Wake(p) == /\ c[p].st # "idle" /\ \E k \in 1..Len(pw) : pw[k][1] = c[p].o
           /\ pw' = SelectSeq(pw, LAMBDA x : x[1] # c[p].o)
           /\ UNCHANGED <<ch, wt, F, c, held, cfg, n, hnd, got, gone, made>>

RECURSIVE AddAll(_, _)
AddAll(f, s) == IF s = <<>> THEN f ELSE AddAll((Head(s) :> (IF Head(s) \in DOMAIN f THEN f[Head(s)] ELSE 0) + 1) @@ f, Tail(s))
Return(p) ==
  /\ c[p].st \in {"done", "reg"}
  /\ LET cl == Settled(p) IN
     /\ cl.st = "done" /\ ~(\E k \in 1..Len(pw) : pw[k][1] = cl.o)
     /\ got' = AddAll(got, (IF Received(cl) THEN <<cl.v>> ELSE <<>>) \o (IF cl.op = "drain_into" THEN cl.vs ELSE <<>>))
     /\ gone' = AddAll(gone, cl.md \o (IF cl.opt THEN <<cl.m>> ELSE <<>>))
     /\ wt' = IF cl.o \in DOMAIN wt THEN [y \in DOMAIN wt \ {cl.o} |-> wt[y]] ELSE wt
  /\ c' = [c EXCEPT ![p] = Idle]
  /\ UNCHANGED <<ch, F, pw, held, cfg, n, hnd, made>>

MNext == \E p \in Procs : Invoke(p) \/ MLin(p) \/ Wake(p) \/ Return(p)
MSpec == MInit /\ [][MNext]_mvars

Count(f, m) == IF m \in DOMAIN f THEN f[m] ELSE 0
InBuf(m) == \E k \in 1..Len(ch.buf) : ch.buf[k] = m
\* C01 / C05: no message is delivered or destroyed twice, none is in two places
OnceL1 == \A m \in made : Count(got, m) + Count(gone, m) + (IF InBuf(m) THEN 1 ELSE 0) <= 1
\* C12: on an open channel the counts are the live handles; closed is (0, 0) and stays
SumS == LET RECURSIVE S(_) S(ps) == IF ps = {} THEN 0 ELSE LET q == CHOOSE x \in ps : TRUE IN hnd[q].s + S(ps \ {q}) IN S(Procs)
SumR == LET RECURSIVE S(_) S(ps) == IF ps = {} THEN 0 ELSE LET q == CHOOSE x \in ps : TRUE IN hnd[q].r + S(ps \ {q}) IN S(Procs)
CountsOK == (ch.sc = 0 /\ ch.rc = 0) \/ (ch.sc = SumS /\ ch.rc = SumR)
\* every registered waiter is listed exactly once, every listed id is a registered waiter
ListOK == /\ \A k \in 1..Len(ch.ws) : ch.ws[k] \in DOMAIN wt /\ wt[ch.ws[k]].st = "reg" /\ wt[ch.ws[k]].sd = "s"
          /\ \A k \in 1..Len(ch.wr) : ch.wr[k] \in DOMAIN wt /\ wt[ch.wr[k]].st = "reg" /\ wt[ch.wr[k]].sd = "r"
          /\ \A id \in DOMAIN wt : wt[id].st = "reg" =>
                Cardinality({k \in 1..Len(ch.ws) : ch.ws[k] = id}) + Cardinality({k \in 1..Len(ch.wr) : ch.wr[k] = id}) = 1
\* C06 at the level of the ideal channel: nobody stays registered on a closed or one-sided channel
NoOrphans == (ch.sc = 0 \/ ch.rc = 0) => \A id \in DOMAIN wt : wt[id].st # "reg"
=============================================================================
