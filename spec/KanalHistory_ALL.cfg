SPECIFICATION Spec
CONSTANT Prop = "ALL"
CONSTRAINT Track
POSTCONDITION Post
CHECK_DEADLOCK FALSE
