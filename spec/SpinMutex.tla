------------------------------ MODULE SpinMutex ------------------------------
(***************************************************************************)
(* C17 -- the channel's internal lock (src/mutex.rs RawMutexLock on top of *)
(* src/backoff.rs spin_cond).  lock() = one fast-path try_lock, then       *)
(* spin_cond(try_lock): with reported parallelism 1 a yield loop, with     *)
(* parallelism > 1 phases of spinning / yield_now / zero sleeps / 1 ms     *)
(* sleeps; every phase is "some back-off, then try_lock again", so the     *)
(* iteration counts are abstracted to an unbounded retry loop.             *)
(* try_lock() = exactly one compare_exchange(false, true, Acquire,         *)
(* Relaxed); unlock() = store(false, Release).                             *)
(* The happens-before meaning of the two orderings is modelled with        *)
(* knowledge bits: seen[t] = the latest write to the protected data        *)
(* happens-before t's present; an acquire CAS learns what the last release *)
(* store published (pub).                                                  *)
(***************************************************************************)
EXTENDS Naturals, FiniteSets, Sequences, TLC

CONSTANTS Threads, MaxOps, AcqOrd, RelOrd     \* orderings: "acquire" / "release" as in the code, or "relaxed" (mutant)

VARIABLES locked, pc, kind, n, att, res, seen, pub, lastw, csid, raced
vars == <<locked, pc, kind, n, att, res, seen, pub, lastw, csid, raced>>

Init == /\ locked = FALSE
        /\ pc = [t \in Threads |-> "idle"] /\ kind = [t \in Threads |-> "none"]
        /\ n = [t \in Threads |-> 0] /\ att = [t \in Threads |-> 0] /\ res = [t \in Threads |-> "none"]
        /\ seen = [t \in Threads |-> TRUE] /\ pub = TRUE /\ lastw = 0 /\ csid = 0 /\ raced = FALSE

\* a call begins: lock() or try_lock() (when not holding), unlock() (when holding)
Begin(t, k) ==
  /\ pc[t] = "idle" /\ n[t] < MaxOps /\ k \in {"lock", "try_lock"}
  /\ pc' = [pc EXCEPT ![t] = "cas"] /\ kind' = [kind EXCEPT ![t] = k]
  /\ n' = [n EXCEPT ![t] = @ + 1] /\ att' = [att EXCEPT ![t] = 0] /\ res' = [res EXCEPT ![t] = "none"]
  /\ UNCHANGED <<locked, seen, pub, lastw, csid, raced>>

\* compare_exchange(false, true, Acquire, Relaxed)
Cas(t) ==
  /\ pc[t] \in {"cas", "backoff"}              \* (the back-off between two attempts has no effect on the lock)
  /\ att' = [att EXCEPT ![t] = IF @ < 2 THEN @ + 1 ELSE 2]      \* (only "one or more than one" matters)
  /\ IF ~locked THEN
        /\ locked' = TRUE /\ pc' = [pc EXCEPT ![t] = "held"] /\ res' = [res EXCEPT ![t] = "Ok"]
        /\ seen' = [seen EXCEPT ![t] = IF AcqOrd = "acquire" THEN @ \/ pub ELSE @]
     ELSE
        /\ UNCHANGED <<locked, seen>>
        /\ IF kind[t] = "try_lock" THEN pc' = [pc EXCEPT ![t] = "idle"] /\ res' = [res EXCEPT ![t] = "Busy"]
           ELSE pc' = [pc EXCEPT ![t] = "backoff"] /\ UNCHANGED res
  /\ UNCHANGED <<kind, n, pub, lastw, csid, raced>>

\* spin_hint / yield_now / sleep between two attempts of spin_cond
Backoff(t) == /\ pc[t] = "backoff" /\ pc' = [pc EXCEPT ![t] = "cas"]
              /\ UNCHANGED <<locked, kind, n, att, res, seen, pub, lastw, csid, raced>>

\* inside the critical section: a plain access to the protected data
Access(t) ==
  /\ pc[t] \in {"held", "held2"}
  /\ raced' = (raced \/ ~seen[t])                    \* the previous writer's section must be visible
  /\ seen' = [u \in Threads |-> u = t] /\ pub' = FALSE   \* a new latest write, known to its writer only
  /\ pc' = [pc EXCEPT ![t] = "held2"]
  /\ UNCHANGED <<locked, kind, n, att, res, lastw, csid>>

\* store(false, Release)
Unlock(t) ==
  /\ pc[t] \in {"held", "held2"}
  /\ locked' = FALSE /\ pub' = IF RelOrd = "release" THEN seen[t] ELSE FALSE
  /\ pc' = [pc EXCEPT ![t] = "idle"]
  /\ UNCHANGED <<kind, n, att, res, seen, lastw, csid, raced>>

Step(t) == (\E k \in {"lock", "try_lock"} : Begin(t, k)) \/ Cas(t) \/ Backoff(t) \/ Access(t) \/ Unlock(t)
Next == \E t \in Threads : Step(t)
Spec == Init /\ [][Next]_vars
FairSpec == Spec /\ \A t \in Threads : WF_vars(Cas(t)) /\ WF_vars(Backoff(t)) /\ WF_vars(Unlock(t)) /\ WF_vars(Access(t))

Holders == {t \in Threads : pc[t] \in {"held", "held2"}}
\* at most one thread is inside a critical section, and only with the lock bit set
MutualExclusion == Cardinality(Holders) <= 1 /\ (Holders # {} => locked)
\* lock() returns only when it really acquired: spin_cond never gives up early
LockReturnsOnlyWhenHeld == \A t \in Threads : (pc[t] = "idle" /\ kind[t] = "lock" /\ n[t] > 0) => res[t] \in {"Ok"}
\* a non-blocking attempt never waits: exactly one compare_exchange
TryLockIsOneStep == \A t \in Threads : (kind[t] = "try_lock" /\ pc[t] # "cas") => att[t] = 1
\* everything done inside one critical section is visible in the next (release on unlock, acquire on lock)
NoRace == ~raced
\* progress: whenever the lock is free and somebody is waiting for it, somebody gets it
Waiting == {t \in Threads : pc[t] \in {"cas", "backoff"} /\ kind[t] = "lock"}
Progress == (Waiting # {}) ~> (Holders # {})
=============================================================================
