//! Harness wakers: the data pointer is the logical waker id (so `will_wake`
//! behaves as for clones of one task's waker); every vtable call is an event
//! and a scheduling point; per-id reference counts detect use after release.
use crate::sched;
use std::task::{RawWaker, RawWakerVTable, Waker};

static VTABLE: RawWakerVTable = RawWakerVTable::new(w_clone, w_wake, w_wake_by_ref, w_drop);

unsafe fn w_clone(d: *const ()) -> RawWaker {
    sched::point(sched::WK_CLONE, 0, d as usize as u64, 0);
    RawWaker::new(d, &VTABLE)
}
unsafe fn w_wake(d: *const ()) {
    sched::point(sched::WK_WAKE, 0, d as usize as u64, 1);
}
unsafe fn w_wake_by_ref(d: *const ()) {
    sched::point(sched::WK_WAKE, 0, d as usize as u64, 0);
}
unsafe fn w_drop(d: *const ()) {
    sched::record(sched::WK_DROP, 0, d as usize as u64, 0, None);
}

/// A fresh handle on logical waker `w` (counts as one reference, like a clone held by the executor).
pub fn make(w: usize) -> Waker {
    sched::record(sched::WK_CLONE, 0, w as u64, 1, None);
    unsafe { Waker::from_raw(RawWaker::new(w as *const (), &VTABLE)) }
}
