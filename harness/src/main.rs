mod interp;
mod payload;
mod sched;
mod waker;

use kanal::verif as kv;
use payload::*;
use sched::{Ev, Strat};
use serde_json::Value;
use std::collections::HashMap;
use std::io::{BufRead, BufWriter, Write};

fn run_dispatch(prog: &Value, strat: Strat) -> interp::RunResult {
    if prog.get("mutex").and_then(|x| x.as_bool()).unwrap_or(false) {
        return interp::run_mutex(prog, strat);
    }
    match prog.get("payload").and_then(|x| x.as_str()).unwrap_or("w1") {
        "w1" => interp::run::<W1>(prog, strat),
        "h4" => interp::run::<H4>(prog, strat),
        "b3" => interp::run::<B3>(prog, strat),
        "p5" => interp::run::<P5>(prog, strat),
        "u8" => interp::run::<U8>(prog, strat),
        "u16" => interp::run::<U16>(prog, strat),
        "z0" => interp::run::<Z0>(prog, strat),
        "z64" => interp::run::<Z64>(prog, strat),
        x => panic!("unknown payload {}", x),
    }
}

fn strat_from(v: &Value, seed: u64) -> Strat {
    let mut s = Strat::default();
    s.seed = seed;
    let f = |k: &str, d: f64| v.get(k).and_then(|x| x.as_f64()).unwrap_or(d);
    // per-seed variety of the scheduling parameters unless pinned by the program
    let mix = seed.wrapping_mul(0x9E3779B97F4A7C15);
    let pick = |sh: u32, opts: &[f64]| opts[((mix >> sh) % opts.len() as u64) as usize];
    s.p_switch = f("p_switch", pick(8, &[0.05, 0.2, 0.5, 1.0]));
    s.spin_bias = f("spin_bias", pick(16, &[0.1, 0.5, 0.9, 0.995]));
    s.q_tick = f("q_tick", pick(24, &[0.0, 0.05, 0.3, 1.0]));
    s.p_spurious = f("p_spurious", pick(32, &[0.0, 0.05, 0.3]));
    s.max_spurious = v.get("max_spurious").and_then(|x| x.as_u64()).unwrap_or(2) as u32;
    s.parallelism = v.get("parallelism").and_then(|x| x.as_u64()).unwrap_or(if (mix >> 40) % 4 == 0 { 1 } else { 16 });
    if let Some(fr) = v.get("freeze").and_then(|x| x.as_array()) {
        if fr.len() >= 2 {
            s.freeze = Some((fr[0].as_u64().unwrap_or(0) as usize, fr[1].as_u64().unwrap_or(0)));
        }
        if fr.len() >= 3 {
            s.freeze_from = fr[2].as_u64().unwrap_or(0) as u32;
        }
        if fr.len() >= 4 {
            s.freeze_solo = fr[3].as_u64().unwrap_or(0) == 1;
        }
    }
    if let Some(sc) = v.get("script").and_then(|x| x.as_array()) {
        s.script = sc.iter().map(|x| x.as_u64().unwrap_or(0) as u32).collect();
    }
    if let Some(f) = v.get("follow").and_then(|x| x.as_array()) {
        s.follow = f.iter().map(|x| x.as_i64().unwrap_or(-2) as i32).collect();
        s.q_tick = 0.0;
        s.tick_phase = 1000;
    }
    s.tick_phase = v.get("tick_phase").and_then(|x| x.as_u64()).unwrap_or(0) as u32;
    s.tick_after = v.get("tick_after").and_then(|x| x.as_u64()).unwrap_or(40) as u32;
    s.freeze_kind = v.get("freeze_kind").and_then(|x| x.as_u64()).unwrap_or(0) as u32;
    s.lockspin_all = v.get("lockspin_all").and_then(|x| x.as_u64()).unwrap_or(0) == 1;
    s.max_steps = v.get("max_steps").and_then(|x| x.as_u64()).unwrap_or(100_000);
    s
}

struct Emit {
    ids: HashMap<usize, usize>,
    next: usize,
}

fn kind_name(k: u32) -> &'static str {
    match k {
        kv::A8_LOAD => "a8_load",
        kv::A8_STORE => "a8_store",
        kv::A8_CAS => "a8_cas",
        kv::A8_RMW => "a8_rmw",
        kv::AB_LOAD => "ab_load",
        kv::AB_STORE => "ab_store",
        kv::AB_CAS => "ab_cas",
        kv::AB_RMW => "ab_rmw",
        kv::FENCE => "fence",
        kv::CELL_GET => "cell_get",
        kv::PTR_READ => "ptr_read",
        kv::PTR_WRITE => "ptr_write",
        kv::PTR_COPY => "ptr_copy",
        kv::PARK => "park",
        kv::UNPARK => "unpark",
        kv::YIELD => "yield",
        kv::THREAD_CURRENT => "current",
        kv::NOW => "now",
        kv::PARALLELISM => "parallelism",
        kv::OBJ_DEAD => "dead",
        kv::OWNER_SLOT => "owner_slot",
        kv::THREAD_CLONE => "thread_clone",
        kv::NOTE => "note",
        kv::USIZE_LOAD => "usize_load",
        kv::FIELD_READ => "field_read",
        kv::FIELD_WRITE => "field_write",
        sched::H_START => "start",
        sched::H_FINISH => "finish",
        sched::H_BEGIN => "B",
        sched::H_END => "E",
        sched::H_DROP => "D",
        sched::WK_CLONE => "wk_clone",
        sched::WK_WAKE => "wk_wake",
        sched::WK_DROP => "wk_drop",
        sched::WAIT_WAKER => "wait_waker",
        sched::H_PHASE => "phase",
        sched::H_TICK => "tick",
        sched::H_POINT => "point",
        sched::H_BARRIER => "barrier",
        sched::H_FUTDEAD => "fut_dead",
        sched::H_FUTBORN => "fut_born",
        _ => "other",
    }
}

impl Emit {
    fn aid(&mut self, a: usize) -> usize {
        if a == 0 {
            return 0;
        }
        self.next += 1;
        let n = self.next;
        *self.ids.entry(a).or_insert(n)
    }
}

/// (owner process, kind: 0 thread stack / 1 harness-allocated future / 2 learned from a FIELD_WRITE, region index)
fn owner3(a: usize, out: &sched::Outcome) -> (i64, i64, i64) {
    if a == 0 {
        return (-1, -1, -1);
    }
    for (k, (addr, size, p, f)) in out.regions.iter().enumerate().rev() {
        if *f != 99 && a >= *addr && a < addr + size {
            return (*p as i64, 1, k as i64);
        }
    }
    for (i, (lo, hi)) in out.stacks.iter().enumerate() {
        if a >= *lo && a < *hi {
            return (i as i64, 0, -1);
        }
    }
    for (k, (addr, size, p, f)) in out.regions.iter().enumerate().rev() {
        if *f == 99 && a >= *addr && a < addr + size {
            return (*p as i64, 2, k as i64);
        }
    }
    (-1, -1, -1)
}
fn owner(a: usize, out: &sched::Outcome) -> i64 {
    owner3(a, out).0
}

fn peek_json(p: &sched::PeekLite, out: &sched::Outcome) -> String {
    let wl: Vec<i64> = p.wl.iter().map(|a| owner(*a, out)).collect();
    format!("{{\"q\":{:?},\"wl\":{:?},\"rb\":{},\"sc\":{},\"rc\":{}}}", p.q, wl, p.rb, p.sc, p.rc)
}

fn tnum(t: usize) -> i64 {
    if t == sched::CTRL {
        9
    } else {
        t as i64
    }
}

fn write_raw(w: &mut impl Write, x: usize, e: &Ev, em: &mut Emit, out: &sched::Outcome) {
    if e.kind == sched::H_FUTBORN {
        // fresh memory: whatever lived at these addresses before is a different object
        let (lo, hi) = (e.addr, e.addr + e.a as usize);
        em.ids.retain(|a, _| *a < lo || *a >= hi);
        em.next += 1000;
    }
    let mut s = format!("{{\"x\":{},\"t\":{},\"k\":\"{}\",\"now\":{}", x, tnum(e.t), kind_name(e.kind), e.now / sched::TICK);
    if matches!(e.kind, sched::H_BEGIN | sched::H_END) {
        if let Some(x) = &e.extra {
            s.push(',');
            s.push_str(x);
        }
    } else {
        let ad = em.aid(e.addr);
        let (own, ok, rg) = owner3(e.addr, out);
        s.push_str(&format!(",\"ad\":{},\"own\":{},\"ok\":{},\"rg\":{},\"a\":{},\"b\":{},\"r\":{},\"r2\":{}", ad, own, ok, rg, e.a, e.b, e.r, e.r2));
        if e.kind == kv::PTR_COPY {
            let src = em.aid(e.a as usize);
            s.push_str(&format!(",\"src\":{},\"srcown\":{}", src, owner(e.a as usize, out)));
        }
    }
    if let Some(p) = &e.peek {
        s.push_str(",\"peek\":");
        s.push_str(&peek_json(p, out));
    }
    s.push('}');
    writeln!(w, "{}", s).unwrap();
}

fn write_hist(w: &mut impl Write, x: usize, e: &Ev) {
    let t = e.now / sched::TICK;
    let p = tnum(e.t);
    match e.kind {
        sched::H_BEGIN | sched::H_END => {
            let k = if e.kind == sched::H_BEGIN { "B" } else { "E" };
            writeln!(w, "{{\"e\":\"{}\",\"p\":{},\"t\":{},{}}}", k, p, t, e.extra.as_deref().unwrap_or("\"o\":0")).unwrap();
        }
        sched::H_DROP => writeln!(w, "{{\"e\":\"D\",\"p\":{},\"t\":{},\"m\":{}}}", p, t, e.a).unwrap(),
        sched::WK_WAKE => writeln!(w, "{{\"e\":\"W\",\"p\":{},\"t\":{},\"w\":{}}}", p, t, e.a).unwrap(),
        sched::H_PHASE => writeln!(w, "{{\"e\":\"Q\",\"p\":{},\"t\":{},\"ph\":{}}}", p, t, e.a).unwrap(),
        sched::WAIT_WAKER => writeln!(w, "{{\"e\":\"A\",\"p\":{},\"t\":{},\"w\":{},\"r\":{}}}", p, t, e.a, e.r).unwrap(),
        _ => {}
    }
    let _ = x;
}

fn main() {
    std::panic::set_hook(Box::new(|_| {}));
    let args: Vec<String> = std::env::args().collect();
    let get = |k: &str| args.iter().position(|a| a == k).and_then(|i| args.get(i + 1)).cloned();
    let cmd = args.get(1).cloned().unwrap_or_default();
    match cmd.as_str() {
        "run" => {
            let progs = get("--programs").expect("--programs");
            let execs: u64 = get("--execs").and_then(|x| x.parse().ok()).unwrap_or(1);
            let seed0: u64 = get("--seed").and_then(|x| x.parse().ok()).unwrap_or(1);
            let mut hist = get("--hist").map(|p| BufWriter::new(std::fs::File::create(p).unwrap()));
            let mut raw = get("--raw").map(|p| BufWriter::new(std::fs::File::create(p).unwrap()));
            let mut meta = get("--meta").map(|p| BufWriter::new(std::fs::File::create(p).unwrap()));
            let f = std::io::BufReader::new(std::fs::File::open(progs).unwrap());
            let mut x = 0usize;
            let t0 = std::time::Instant::now();
            let mut total_ev = 0usize;
            for (pi, line) in f.lines().enumerate() {
                let line = line.unwrap();
                if line.trim().is_empty() {
                    continue;
                }
                let prog: Value = serde_json::from_str(&line).unwrap();
                let n_exec = prog.get("execs").and_then(|x| x.as_u64()).unwrap_or(execs);
                for k in 0..n_exec {
                    let seed = prog
                        .get("strat")
                        .and_then(|s| s.get("seed"))
                        .and_then(|s| s.as_u64())
                        .unwrap_or(seed0.wrapping_mul(1_000_003).wrapping_add(pi as u64 * 7919 + k));
                    let strat = strat_from(prog.get("strat").unwrap_or(&Value::Null), seed);
                    x += 1;
                    if let Some(m) = meta.as_mut() {
                        // written before the execution so that a crash is attributable
                        writeln!(m, "{{\"x\":{},\"prog\":{},\"seed\":{},\"begin\":true}}", x, pi, seed).unwrap();
                        m.flush().unwrap();
                    }
                    let mut rr = run_dispatch(&prog, strat.clone());
                    {
                        let o = &mut rr.out;
                        let extra: Vec<(usize, usize, usize, usize)> = o
                            .log
                            .iter()
                            .filter(|e| e.kind == kv::FIELD_WRITE && e.t != sched::CTRL && owner(e.addr, o) < 0)
                            .map(|e| (e.addr.saturating_sub(96), 192, e.t, 99))
                            .collect();
                        o.regions.extend(extra);
                    }
                    let out = &rr.out;
                    total_ev += out.log.len();
                    if let Some(h) = hist.as_mut() {
                        let cnt = |c: char| -> usize {
                            prog["procs"].as_array().map(|a| a.iter().map(|p| p["handles"].as_array().map(|h| h.iter().filter(|x| x.as_str().unwrap_or("").ends_with(c)).count()).unwrap_or(0)).sum()).unwrap_or(0)
                        };
                        let cap = match prog.get("cap").and_then(|c| c.as_u64()) { Some(c) => c, None => 1_000_000 };
                        let pl = prog.get("payload").and_then(|x| x.as_str()).unwrap_or("w1");
                        writeln!(h, "{{\"e\":\"X\",\"x\":{},\"prog\":{},\"t\":0,\"cap\":{},\"sc\":{},\"rc\":{},\"drops\":{},\"tagged\":{}}}", x, pi, cap, cnt('s'), cnt('r'), !matches!(pl, "u8" | "u16"), !matches!(pl, "z0" | "z64")).unwrap();
                        for e in &out.log {
                            write_hist(h, x, e);
                        }
                        let st: Vec<String> = out.stuck_threads.iter().map(|t| t.to_string()).collect();
                        let mut so: Vec<String> = Vec::new();
                        if out.stuck {
                            for (k, &t) in out.stuck_threads.iter().enumerate() {
                                // the call this thread is inside: its last Begin without an End
                                let mut op = String::new();
                                for e in out.log.iter().filter(|e| e.t == t) {
                                    if e.kind == sched::H_BEGIN {
                                        let ex = e.extra.clone().unwrap_or_default();
                                        op = ex.split("\"op\":\"").nth(1).and_then(|r| r.split('"').next()).unwrap_or("").to_string();
                                    } else if e.kind == sched::H_END {
                                        op.clear();
                                    }
                                }
                                so.push(format!("{{\"p\":{},\"op\":\"{}\",\"pend\":\"{}\"}}", t, op, kind_name(out.stuck_pending[k])));
                            }
                        }
                        writeln!(h, "{{\"e\":\"Z\",\"x\":{},\"stuck\":{},\"budget\":{},\"stuck_threads\":[{}],\"stuck_ops\":[{}],\"t\":0}}", x, out.stuck, out.over_budget, st.join(","), so.join(",")).unwrap();
                    }
                    if let Some(r) = raw.as_mut() {
                        let mut em = Emit { ids: HashMap::new(), next: 0 };
                        let cnt = |c: char| -> usize {
                            prog["procs"].as_array().map(|a| a.iter().map(|p| p["handles"].as_array().map(|h| h.iter().filter(|x| x.as_str().unwrap_or("").ends_with(c)).count()).unwrap_or(0)).sum()).unwrap_or(0)
                        };
                        let cap = match prog.get("cap").and_then(|c| c.as_u64()) { Some(c) => c, None => 1_000_000 };
                        writeln!(r, "{{\"x\":{},\"t\":9,\"k\":\"reset\",\"now\":0,\"prog\":{},\"cap\":{},\"sc\":{},\"rc\":{}}}", x, pi, cap, cnt('s'), cnt('r')).unwrap();
                        for e in &out.log {
                            write_raw(r, x, e, &mut em, out);
                        }
                        writeln!(r, "{{\"x\":{},\"t\":9,\"now\":0,\"k\":\"end\",\"stuck\":{},\"budget\":{},\"peek\":{}}}", x, out.stuck, out.over_budget, out.final_peek.as_ref().map(|p| peek_json(p, out)).unwrap_or("{}".to_string())).unwrap();
                    }
                    if out.hung {
                        // a controlled thread vanished or hangs outside any hook: the process state is not trustworthy
                        for w in [hist.as_mut(), raw.as_mut()].into_iter().flatten() {
                            let _ = w.flush();
                        }
                        eprintln!("execution {} hung (no scheduling step for 20 s); giving up on this process", x);
                        std::process::exit(3);
                    }
                    if let Some(m) = meta.as_mut() {
                        let d: Vec<String> = out.decisions.iter().map(|d| d.to_string()).collect();
                        writeln!(
                            m,
                            "{{\"x\":{},\"prog\":{},\"seed\":{},\"steps\":{},\"events\":{},\"stuck\":{},\"budget\":{},\"diverged\":{},\"follow_div\":{},\"strat\":{{\"seed\":{},\"p_switch\":{},\"spin_bias\":{},\"q_tick\":{},\"p_spurious\":{},\"max_spurious\":{},\"parallelism\":{}}},\"decisions\":[{}]}}",
                            x, pi, seed, out.steps, out.log.len(), out.stuck, out.over_budget, out.diverged, out.follow_div,
                            seed, strat.p_switch, strat.spin_bias, strat.q_tick, strat.p_spurious, strat.max_spurious, strat.parallelism,
                            d.join(",")
                        )
                        .unwrap();
                    }
                }
            }
            eprintln!("executions={} events={} elapsed={:?}", x, total_ev, t0.elapsed());
        }
        _ => {
            eprintln!("usage: kh run --programs P.ndjson [--execs N] [--seed S] [--hist H] [--raw R] [--meta M]");
            std::process::exit(2);
        }
    }
}
