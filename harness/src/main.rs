fn main(){ let v: serde_json::Value = serde_json::from_str("{\"a\":1}").unwrap(); println!("{}", v); }
