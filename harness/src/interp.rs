//! Program interpreter: runs small per-process scripts over the whole public API
//! of kanal under the controlled scheduler and records the API history.
use crate::payload::Payload;
use crate::sched::{self, Outcome, Strat};
use crate::waker;
use futures_core::Stream;
use kanal::{AsyncReceiver, AsyncSender, ReceiveFuture, ReceiveStream, Receiver, SendFuture, Sender};
use serde_json::Value;
use std::future::Future;
use std::panic::{catch_unwind, AssertUnwindSafe};
use std::pin::Pin;
use std::sync::atomic::{AtomicUsize, Ordering::SeqCst};
use std::sync::{Arc, Mutex};
use std::task::{Context, Poll};
use std::time::Duration;

pub enum H<P> {
    SS(Box<Sender<P>>),
    AS(Box<AsyncSender<P>>),
    SR(Box<Receiver<P>>),
    AR(Box<AsyncReceiver<P>>),
    Gone,
}

impl<P> H<P> {
    fn code(&self) -> &'static str {
        match self {
            H::SS(_) => "ss",
            H::AS(_) => "as",
            H::SR(_) => "sr",
            H::AR(_) => "ar",
            H::Gone => "gone",
        }
    }
    fn ss(&self) -> Option<&Sender<P>> {
        match self {
            H::SS(b) => Some(b),
            H::AS(b) => Some(b.as_sync()),
            _ => None,
        }
    }
    fn as_(&self) -> Option<&AsyncSender<P>> {
        match self {
            H::SS(b) => Some(b.as_async()),
            H::AS(b) => Some(b),
            _ => None,
        }
    }
    fn sr(&self) -> Option<&Receiver<P>> {
        match self {
            H::SR(b) => Some(b),
            H::AR(b) => Some(b.as_sync()),
            _ => None,
        }
    }
    fn ar(&self) -> Option<&AsyncReceiver<P>> {
        match self {
            H::SR(b) => Some(b.as_async()),
            H::AR(b) => Some(b),
            _ => None,
        }
    }
}

pub enum Fut<P: 'static> {
    Send(*mut SendFuture<'static, P>),
    Recv(*mut ReceiveFuture<'static, P>),
    Stream(*mut ReceiveStream<'static, P>),
    None,
}

/// handle currently used by each process (for the epilogue closer): (kind, pointer)
pub static CUR_HANDLE: [(AtomicUsize, AtomicUsize); 8] = [
    (AtomicUsize::new(0), AtomicUsize::new(0)),
    (AtomicUsize::new(0), AtomicUsize::new(0)),
    (AtomicUsize::new(0), AtomicUsize::new(0)),
    (AtomicUsize::new(0), AtomicUsize::new(0)),
    (AtomicUsize::new(0), AtomicUsize::new(0)),
    (AtomicUsize::new(0), AtomicUsize::new(0)),
    (AtomicUsize::new(0), AtomicUsize::new(0)),
    (AtomicUsize::new(0), AtomicUsize::new(0)),
];

struct Proc<P: 'static> {
    pi: usize,
    hs: Vec<H<P>>,
    futs: Vec<Fut<P>>,
    fut_h: Vec<usize>,
    oid: u32,
    quarantine: Vec<(*mut u8, std::alloc::Layout)>,
    drains: u64,
}

fn gu(v: &Value, k: &str) -> u64 {
    v.get(k).and_then(|x| x.as_u64()).unwrap_or(0)
}
fn gs<'a>(v: &'a Value, k: &str) -> &'a str {
    v.get(k).and_then(|x| x.as_str()).unwrap_or("")
}

struct Res {
    r: &'static str,
    v: u64,
    vs: Vec<u64>,
    opt: bool,
}
fn res(r: &'static str) -> Res {
    Res { r, v: 0, vs: vec![], opt: false }
}
fn resv(r: &'static str, v: u64) -> Res {
    Res { r, v, vs: vec![], opt: false }
}

fn serr(e: kanal::SendError) -> &'static str {
    match e {
        kanal::SendError::Closed => "Closed",
        kanal::SendError::ReceiveClosed => "ReceiveClosed",
    }
}
fn serrt(e: kanal::SendErrorTimeout) -> &'static str {
    match e {
        kanal::SendErrorTimeout::Closed => "Closed",
        kanal::SendErrorTimeout::ReceiveClosed => "ReceiveClosed",
        kanal::SendErrorTimeout::Timeout => "Timeout",
    }
}
fn rerr(e: kanal::ReceiveError) -> &'static str {
    match e {
        kanal::ReceiveError::Closed => "Closed",
        kanal::ReceiveError::SendClosed => "SendClosed",
    }
}
fn rerrt(e: kanal::ReceiveErrorTimeout) -> &'static str {
    match e {
        kanal::ReceiveErrorTimeout::Closed => "Closed",
        kanal::ReceiveErrorTimeout::SendClosed => "SendClosed",
        kanal::ReceiveErrorTimeout::Timeout => "Timeout",
    }
}

impl<P: Payload> Proc<P> {
    fn begin(&mut self, op: &Value, name: &str, side: &str, hcode: &str) -> u32 {
        self.oid += 1;
        let oid = (self.pi as u32 + 1) * 1000 + self.oid;
        let extra = format!(
            "\"o\":{},\"op\":\"{}\",\"sd\":\"{}\",\"hc\":\"{}\",\"h\":{},\"m\":{},\"d\":{},\"f\":{},\"w\":{},\"pre\":{},\"spare\":{},\"none\":{},\"pv\":{:?}",
            oid,
            name,
            side,
            hcode,
            gu(op, "h"),
            gu(op, "m"),
            gu(op, "d"),
            gu(op, "f"),
            if gu(op, "w") > 0 { self.pi as u64 * 4 + gu(op, "w") } else { 0 },
            gu(op, "pre"),
            gu(op, "spare"),
            gu(op, "none") == 1,
            self.pre_ids(op)
        );
        sched::point(sched::H_BEGIN, 0, oid as u64, 0);
        sched::annotate(extra);
        oid
    }
    fn end(&mut self, oid: u32, r: &Res) {
        let vs: Vec<String> = r.vs.iter().map(|x| x.to_string()).collect();
        let extra = format!(
            "\"o\":{},\"r\":\"{}\",\"v\":{},\"vs\":[{}],\"opt\":{}",
            oid,
            r.r,
            r.v,
            vs.join(","),
            r.opt
        );
        sched::record(sched::H_END, 0, oid as u64, 0, Some(extra));
    }

    /// identities of the values a drain_into target vector already holds
    fn pre_ids(&self, op: &Value) -> Vec<u64> {
        let pre = gu(op, "pre");
        if gs(op, "op") != "drain_into" {
            return vec![];
        }
        let base = if P::NAME == "u8" { 200 } else { 1000 + 100 * self.pi as u64 + 8 * self.drains };
        (0..pre).map(|k| P::id_of((base + k) as u32)).collect()
    }

    fn set_cur(&self, h: usize) {
        let (k, p): (usize, usize) = match &self.hs[h] {
            H::SS(b) => (1, &**b as *const _ as usize),
            H::AS(b) => (2, &**b as *const _ as usize),
            H::SR(b) => (3, &**b as *const _ as usize),
            H::AR(b) => (4, &**b as *const _ as usize),
            H::Gone => (0, 0),
        };
        CUR_HANDLE[self.pi].0.store(k, SeqCst);
        CUR_HANDLE[self.pi].1.store(p, SeqCst);
    }

    /// run one API call with panics caught
    fn call(&mut self, f: impl FnOnce(&mut Self) -> Res) -> Res {
        match catch_unwind(AssertUnwindSafe(|| f(self))) {
            Ok(r) => r,
            Err(_) => res("Panic"),
        }
    }

    fn exec(&mut self, op: &Value) {
        let name = gs(op, "op").to_string();
        if name == "barrier" {
            sched::point(sched::H_BARRIER, 0, gu(op, "ph"), 0);
            return;
        }
        let mut h = gu(op, "h") as usize;
        // side addressing: the newest ("hs") or oldest ("hso") live handle of a side
        for (key, newest) in [("hs", true), ("hso", false)] {
            let sd = gs(op, key);
            if !sd.is_empty() {
                let mut found = None;
                for (i, hh) in self.hs.iter().enumerate() {
                    let c = hh.code();
                    if c != "gone" && c.ends_with(sd) && (newest || found.is_none()) {
                        found = Some(i);
                    }
                }
                match found {
                    Some(i) => h = i,
                    None => return,
                }
            }
        }
        let fi = gu(op, "f") as usize;
        let m = gu(op, "m") as u32;
        let dur = Duration::from_nanos(gu(op, "d") * sched::TICK);
        let is_fut_op = matches!(name.as_str(), "poll" | "await" | "drop_fut" | "stream_is_terminated");
        if !is_fut_op {
            if h >= self.hs.len() || matches!(self.hs[h], H::Gone) {
                return; // ill-formed for this run: skipped silently
            }
            self.set_cur(h);
        } else {
            if fi >= self.futs.len() || matches!(self.futs[fi], Fut::None) {
                return;
            }
            self.set_cur(self.fut_h[fi]);
        }
        let hcode = if is_fut_op { "" } else { self.hs[h].code() };
        let side = if is_fut_op {
            match self.futs[fi] {
                Fut::Send(_) => "s",
                _ => "r",
            }
        } else if hcode.ends_with('s') {
            "s"
        } else {
            "r"
        };
        macro_rules! sender_op {
            ($body:expr) => {{
                if self.hs[h].ss().is_none() {
                    return;
                }
                let oid = self.begin(op, &name, side, hcode);
                let r = self.call(|me| {
                    let s: &Sender<P> = me.hs[h].ss().unwrap();
                    #[allow(clippy::redundant_closure_call)]
                    ($body)(s)
                });
                self.end(oid, &r);
            }};
        }
        macro_rules! receiver_op {
            ($body:expr) => {{
                if self.hs[h].sr().is_none() {
                    return;
                }
                let oid = self.begin(op, &name, side, hcode);
                let r = self.call(|me| {
                    let s: &Receiver<P> = me.hs[h].sr().unwrap();
                    #[allow(clippy::redundant_closure_call)]
                    ($body)(s)
                });
                self.end(oid, &r);
            }};
        }
        // observers and close exist on all four handle types with identical code (shared_impl!)
        macro_rules! any_op {
            ($meth:ident, $conv:expr) => {{
                let oid = self.begin(op, &name, side, hcode);
                let r = self.call(|me| {
                    #[allow(clippy::redundant_closure_call)]
                    match &me.hs[h] {
                        H::SS(b) => ($conv)(b.$meth()),
                        H::AS(b) => ($conv)(b.$meth()),
                        H::SR(b) => ($conv)(b.$meth()),
                        H::AR(b) => ($conv)(b.$meth()),
                        H::Gone => res("Skip"),
                    }
                });
                self.end(oid, &r);
            }};
        }
        match name.as_str() {
            // ---------------------------------------------------------------- sends
            "send" => sender_op!(|s: &Sender<P>| match s.send(P::make(m)) {
                Ok(()) => res("Ok"),
                Err(e) => res(serr(e)),
            }),
            "send_timeout" => sender_op!(|s: &Sender<P>| match s.send_timeout(P::make(m), dur) {
                Ok(()) => res("Ok"),
                Err(e) => res(serrt(e)),
            }),
            "send_option_timeout" => {
                if self.hs[h].ss().is_none() {
                    return;
                }
                let oid = self.begin(op, &name, side, hcode);
                let mut opt = if gu(op, "none") == 1 { None } else { Some(P::make(m)) };
                let mut r = self.call(|me| {
                    let s = me.hs[h].ss().unwrap();
                    match s.send_option_timeout(&mut opt, dur) {
                        Ok(()) => res("Ok"),
                        Err(e) => res(serrt(e)),
                    }
                });
                r.opt = opt.is_some();
                self.end(oid, &r);
                drop(opt);
            }
            "try_send" | "try_send_realtime" => {
                let rt = name == "try_send_realtime";
                sender_op!(|s: &Sender<P>| {
                    sched::set_realtime(rt);
                    let r = if rt { s.try_send_realtime(P::make(m)) } else { s.try_send(P::make(m)) };
                    sched::set_realtime(false);
                    match r {
                        Ok(true) => res("Ok"),
                        Ok(false) => res("Full"),
                        Err(e) => res(serr(e)),
                    }
                })
            }
            "try_send_option" | "try_send_option_realtime" => {
                if self.hs[h].ss().is_none() {
                    return;
                }
                let rt = name == "try_send_option_realtime";
                let oid = self.begin(op, &name, side, hcode);
                let mut opt = if gu(op, "none") == 1 { None } else { Some(P::make(m)) };
                let mut r = self.call(|me| {
                    let s = me.hs[h].ss().unwrap();
                    sched::set_realtime(rt);
                    let r = if rt { s.try_send_option_realtime(&mut opt) } else { s.try_send_option(&mut opt) };
                    sched::set_realtime(false);
                    match r {
                        Ok(true) => res("Ok"),
                        Ok(false) => res("Full"),
                        Err(e) => res(serr(e)),
                    }
                });
                sched::set_realtime(false);
                r.opt = opt.is_some();
                self.end(oid, &r);
                drop(opt);
            }
            // ---------------------------------------------------------------- receives
            "recv" => receiver_op!(|s: &Receiver<P>| match s.recv() {
                Ok(v) => {
                    let id = v.id();
                    VAL.with(|c| *c.borrow_mut() = Some(Box::new(v)));
                    resv("Ok", id)
                }
                Err(e) => res(rerr(e)),
            }),
            "recv_timeout" => receiver_op!(|s: &Receiver<P>| match s.recv_timeout(dur) {
                Ok(v) => {
                    let id = v.id();
                    VAL.with(|c| *c.borrow_mut() = Some(Box::new(v)));
                    resv("Ok", id)
                }
                Err(e) => res(rerrt(e)),
            }),
            "try_recv" | "try_recv_realtime" => {
                let rt = name == "try_recv_realtime";
                receiver_op!(|s: &Receiver<P>| {
                    sched::set_realtime(rt);
                    let r = if rt { s.try_recv_realtime() } else { s.try_recv() };
                    sched::set_realtime(false);
                    match r {
                        Ok(Some(v)) => {
                            let id = v.id();
                            VAL.with(|c| *c.borrow_mut() = Some(Box::new(v)));
                            resv("Ok", id)
                        }
                        Ok(None) => res("Empty"),
                        Err(e) => res(rerr(e)),
                    }
                })
            }
            "drain_into" => {
                if self.hs[h].sr().is_none() {
                    return;
                }
                let pre = gu(op, "pre") as usize;
                let spare = gu(op, "spare") as usize;
                let mut vec: Vec<P> = Vec::with_capacity(pre + spare);
                {
                    let base = if P::NAME == "u8" { 200 } else { 1000 + 100 * self.pi as u64 + 8 * self.drains };
                    for k in 0..pre as u64 {
                        vec.push(P::make((base + k) as u32));
                    }
                }

                let oid = self.begin(op, &name, side, hcode);
                let mut r = self.call(|me| {
                    let s = me.hs[h].sr().unwrap();
                    match s.drain_into(&mut vec) {
                        Ok(n) => resv("Ok", n as u64),
                        Err(e) => res(rerr(e)),
                    }
                });
                r.vs = vec.iter().map(|x| x.id()).collect();
                self.end(oid, &r);
                self.drains += 1;
                drop(vec);
            }
            "iter_next" => {
                // Iterator for Receiver needs &mut Receiver: only on a sync receiver handle
                if !matches!(self.hs[h], H::SR(_)) {
                    return;
                }
                let oid = self.begin(op, &name, side, hcode);
                let r = self.call(|me| {
                    if let H::SR(b) = &mut me.hs[h] {
                        match b.next() {
                            Some(v) => {
                                let id = v.id();
                                VAL.with(|c| *c.borrow_mut() = Some(Box::new(v)));
                                resv("Ok", id)
                            }
                            None => res("None"),
                        }
                    } else {
                        res("Skip")
                    }
                });
                self.end(oid, &r);
            }
            // ---------------------------------------------------------------- futures
            "asend_new" => {
                if fi < self.futs.len() && !matches!(self.futs[fi], Fut::None) {
                    return; // slot occupied: ill-formed, skipped
                }
                if self.hs[h].as_().is_none() {
                    return;
                }
                let oid = self.begin(op, &name, side, hcode);
                let s: &'static AsyncSender<P> = unsafe { &*(self.hs[h].as_().unwrap() as *const _) };
                let fut = Box::into_raw(Box::new(s.send(P::make(m))));
                sched::region(fut as usize, std::mem::size_of::<SendFuture<'static, P>>(), fi);
                self.put_fut(fi, Fut::Send(fut), h);
                self.end(oid, &res("Ok"));
            }
            "arecv_new" => {
                if fi < self.futs.len() && !matches!(self.futs[fi], Fut::None) {
                    return; // slot occupied: ill-formed, skipped
                }
                if self.hs[h].ar().is_none() {
                    return;
                }
                let oid = self.begin(op, &name, side, hcode);
                let s: &'static AsyncReceiver<P> = unsafe { &*(self.hs[h].ar().unwrap() as *const _) };
                let fut = Box::into_raw(Box::new(s.recv()));
                sched::region(fut as usize, std::mem::size_of::<ReceiveFuture<'static, P>>(), fi);
                self.put_fut(fi, Fut::Recv(fut), h);
                self.end(oid, &res("Ok"));
            }
            "stream_new" => {
                if fi < self.futs.len() && !matches!(self.futs[fi], Fut::None) {
                    return; // slot occupied: ill-formed, skipped
                }
                if self.hs[h].ar().is_none() {
                    return;
                }
                let oid = self.begin(op, &name, side, hcode);
                let s: &'static AsyncReceiver<P> = unsafe { &*(self.hs[h].ar().unwrap() as *const _) };
                let fut = Box::into_raw(Box::new(s.stream()));
                self.put_fut(fi, Fut::Stream(fut), h);
                self.end(oid, &res("Ok"));
            }
            "poll" => {
                self.poll_once(op, fi, side);
            }
            "await" => {
                // poll until ready, sleeping on the waker in between (bounded)
                let w = self.pi * 4 + gu(op, "w") as usize;
                for _ in 0..8 {
                    if self.poll_once(op, fi, side) {
                        break;
                    }
                    sched::point(sched::WAIT_WAKER, 0, w as u64, 0);
                }
            }
            "drop_fut" => {
                let oid = self.begin(op, &name, side, "");
                let r = self.call(|me| {
                    me.drop_fut(fi);
                    res("Ok")
                });
                self.end(oid, &r);
            }
            "stream_is_terminated" => {
                if let Fut::Stream(p) = self.futs[fi] {
                    let oid = self.begin(op, &name, side, "");
                    let r = self.call(|_| {
                        let b = futures_core::FusedStream::is_terminated(unsafe { &*p });
                        resv("Ok", b as u64)
                    });
                    self.end(oid, &r);
                }
            }
            // ---------------------------------------------------------------- handles
            "clone" | "clone_sync" | "clone_async" => {
                let oid = self.begin(op, &name, side, hcode);
                let mut newh: Option<H<P>> = None;
                let r = self.call(|me| {
                    let n = match (&me.hs[h], name.as_str()) {
                        (H::SS(b), "clone") => H::SS(Box::new((**b).clone())),
                        (H::AS(b), "clone") => H::AS(Box::new((**b).clone())),
                        (H::SR(b), "clone") => H::SR(Box::new((**b).clone())),
                        (H::AR(b), "clone") => H::AR(Box::new((**b).clone())),
                        (H::SS(b), "clone_async") => H::AS(Box::new(b.clone_async())),
                        (H::SR(b), "clone_async") => H::AR(Box::new(b.clone_async())),
                        (H::AS(b), "clone_sync") => H::SS(Box::new(b.clone_sync())),
                        (H::AR(b), "clone_sync") => H::SR(Box::new(b.clone_sync())),
                        // same-flavour spellings go through the borrowed view of the other flavour
                        (H::SS(b), "clone_sync") => H::SS(Box::new(b.as_async().clone_sync())),
                        (H::SR(b), "clone_sync") => H::SR(Box::new(b.as_async().clone_sync())),
                        (H::AS(b), "clone_async") => H::AS(Box::new(b.as_sync().clone_async())),
                        (H::AR(b), "clone_async") => H::AR(Box::new(b.as_sync().clone_async())),
                        _ => H::Gone,
                    };
                    newh = Some(n);
                    res("Ok")
                });
                if let Some(n) = newh {
                    self.hs.push(n);
                }
                self.end(oid, &r);
            }
            "to_sync" | "to_async" => {
                if self.fut_h.iter().enumerate().any(|(i, &x)| x == h && !matches!(self.futs[i], Fut::None)) {
                    return;
                }
                let oid = self.begin(op, &name, side, hcode);
                let old = std::mem::replace(&mut self.hs[h], H::Gone);
                let n = match (old, name.as_str()) {
                    (H::SS(b), "to_async") => H::AS(Box::new((*b).to_async())),
                    (H::SR(b), "to_async") => H::AR(Box::new((*b).to_async())),
                    (H::AS(b), "to_sync") => H::SS(Box::new((*b).to_sync())),
                    (H::AR(b), "to_sync") => H::SR(Box::new((*b).to_sync())),
                    (H::SS(b), "to_sync") => H::SS(Box::new((*b).to_async().to_sync())),
                    (H::SR(b), "to_sync") => H::SR(Box::new((*b).to_async().to_sync())),
                    (H::AS(b), "to_async") => H::AS(Box::new((*b).to_sync().to_async())),
                    (H::AR(b), "to_async") => H::AR(Box::new((*b).to_sync().to_async())),
                    (o, _) => o,
                };
                self.hs[h] = n;
                self.end(oid, &res("Ok"));
            }
            "drop" => {
                if self.fut_h.iter().enumerate().any(|(i, &x)| x == h && !matches!(self.futs[i], Fut::None)) {
                    return;
                }
                let oid = self.begin(op, &name, side, hcode);
                let r = self.call(|me| {
                    let old = std::mem::replace(&mut me.hs[h], H::Gone);
                    drop(old);
                    res("Ok")
                });
                CUR_HANDLE[self.pi].0.store(0, SeqCst);
                self.end(oid, &r);
            }
            "close" => any_op!(close, |x: Result<(), kanal::CloseError>| match x {
                Ok(()) => res("Ok"),
                Err(_) => res("CloseErr"),
            }),
            // ---------------------------------------------------------------- observers
            "len" => any_op!(len, |x: usize| resv("Ok", x as u64)),
            "is_empty" => any_op!(is_empty, |x: bool| resv("Ok", x as u64)),
            "is_full" => any_op!(is_full, |x: bool| resv("Ok", x as u64)),
            "capacity" => any_op!(capacity, |x: usize| resv("Ok", if x == usize::MAX { 1_000_000 } else { x as u64 })),
            "is_bounded" => any_op!(is_bounded, |x: bool| resv("Ok", x as u64)),
            "sender_count" => any_op!(sender_count, |x: u32| resv("Ok", x as u64)),
            "receiver_count" => any_op!(receiver_count, |x: u32| resv("Ok", x as u64)),
            "is_closed" => any_op!(is_closed, |x: bool| resv("Ok", x as u64)),
            "is_disconnected" => any_op!(is_disconnected, |x: bool| resv("Ok", x as u64)),
            "is_terminated" => receiver_op!(|s: &Receiver<P>| resv("Ok", s.is_terminated() as u64)),
            _ => {}
        }
        // a received value is dropped by the caller after the call has returned
        VAL.with(|c| c.borrow_mut().take());
    }

    fn put_fut(&mut self, fi: usize, f: Fut<P>, h: usize) {
        while self.futs.len() <= fi {
            self.futs.push(Fut::None);
            self.fut_h.push(0);
        }
        if !matches!(self.futs[fi], Fut::None) {
            self.drop_fut(fi);
        }
        self.futs[fi] = f;
        self.fut_h[fi] = h;
    }

    fn drop_fut(&mut self, fi: usize) {
        let f = std::mem::replace(&mut self.futs[fi], Fut::None);
        unsafe {
            match f {
                Fut::Send(p) => {
                    std::ptr::drop_in_place(p);
                    // the memory stays allocated (quarantine) but is poisoned: whoever still reads it gets garbage
                    std::ptr::write_bytes(p as *mut u8, 0xA5, std::mem::size_of::<SendFuture<'static, P>>());
                    sched::record(sched::H_FUTDEAD, p as usize, 0, 0, None);
                    self.quarantine.push((p as *mut u8, std::alloc::Layout::new::<SendFuture<'static, P>>()));
                }
                Fut::Recv(p) => {
                    std::ptr::drop_in_place(p);
                    std::ptr::write_bytes(p as *mut u8, 0xA5, std::mem::size_of::<ReceiveFuture<'static, P>>());
                    sched::record(sched::H_FUTDEAD, p as usize, 0, 0, None);
                    self.quarantine.push((p as *mut u8, std::alloc::Layout::new::<ReceiveFuture<'static, P>>()));
                }
                Fut::Stream(p) => {
                    std::ptr::drop_in_place(p);
                    std::ptr::write_bytes(p as *mut u8, 0xA5, std::mem::size_of::<ReceiveStream<'static, P>>());
                    self.quarantine.push((p as *mut u8, std::alloc::Layout::new::<ReceiveStream<'static, P>>()));
                }
                Fut::None => {}
            }
        }
    }

    /// one poll of future `fi` with logical waker `w`; true if it is finished with
    fn poll_once(&mut self, op: &Value, fi: usize, side: &str) -> bool {
        let w = self.pi * 4 + gu(op, "w") as usize;
        let name = match self.futs[fi] {
            Fut::Stream(_) => "poll_next",
            _ => "poll",
        };
        let oid = self.begin(op, name, side, "");
        let wk = waker::make(w);
        let r = self.call(|me| {
            let mut cx = Context::from_waker(&wk);
            unsafe {
                match me.futs[fi] {
                    Fut::Send(p) => match Pin::new_unchecked(&mut *p).poll(&mut cx) {
                        Poll::Pending => res("Pending"),
                        Poll::Ready(Ok(())) => res("Ok"),
                        Poll::Ready(Err(e)) => res(serr(e)),
                    },
                    Fut::Recv(p) => match Pin::new_unchecked(&mut *p).poll(&mut cx) {
                        Poll::Pending => res("Pending"),
                        Poll::Ready(Ok(v)) => {
                            let id = v.id();
                            VAL.with(|c| *c.borrow_mut() = Some(Box::new(v)));
                            resv("Ok", id)
                        }
                        Poll::Ready(Err(e)) => res(rerr(e)),
                    },
                    Fut::Stream(p) => match Pin::new_unchecked(&mut *p).poll_next(&mut cx) {
                        Poll::Pending => res("Pending"),
                        Poll::Ready(Some(v)) => {
                            let id = v.id();
                            VAL.with(|c| *c.borrow_mut() = Some(Box::new(v)));
                            resv("Ok", id)
                        }
                        Poll::Ready(None) => res("None"),
                    },
                    Fut::None => res("Skip"),
                }
            }
        });
        drop(wk);
        self.end(oid, &r);
        VAL.with(|c| c.borrow_mut().take());
        r.r != "Pending"
    }
}

thread_local! {
    /// the value a receive obtained, kept until the call's End event has been recorded
    static VAL: std::cell::RefCell<Option<Box<dyn std::any::Any>>> = const { std::cell::RefCell::new(None) };
}

pub struct RunResult {
    pub out: Outcome,
    pub n_procs: usize,
}

/// Run one program once under `strat`.
pub fn run<P: Payload>(prog: &Value, strat: Strat) -> RunResult {
    let procs = prog["procs"].as_array().cloned().unwrap_or_default();
    let n = procs.len();
    assert!(n < 7);
    let unbounded = prog.get("cap").map(|c| c.is_null()).unwrap_or(true);
    let cap = prog.get("cap").and_then(|c| c.as_u64()).unwrap_or(0) as usize;
    // ---- uncontrolled set-up: create the channel and hand out handles
    let (s0, r0): (Sender<P>, Receiver<P>) = if unbounded { kanal::unbounded() } else { kanal::bounded(cap) };
    let peeker = s0.verif_peeker();
    let mut tables: Vec<Vec<H<P>>> = Vec::new();
    for p in &procs {
        let mut t = Vec::new();
        for hc in p["handles"].as_array().cloned().unwrap_or_default() {
            t.push(match hc.as_str().unwrap_or("") {
                "ss" => H::SS(Box::new(s0.clone())),
                "as" => H::AS(Box::new(s0.clone_async())),
                "sr" => H::SR(Box::new(r0.clone())),
                "ar" => H::AR(Box::new(r0.clone_async())),
                _ => H::Gone,
            });
        }
        tables.push(t);
    }
    drop(s0);
    drop(r0);
    let mut phase_of: Vec<u32> = procs.iter().map(|p| gu(p, "phase") as u32).collect();
    let mut maxp = phase_of.iter().cloned().max().unwrap_or(0);
    for p in &procs {
        for op in p["ops"].as_array().cloned().unwrap_or_default() {
            if gs(&op, "op") == "barrier" {
                maxp = maxp.max(gu(&op, "ph") as u32);
            }
        }
    }
    phase_of.push(maxp + 1); // the epilogue closer
    sched::reset(n + 1, strat, phase_of);
    {
        let pk = Arc::new(Mutex::new(Some(peeker)));
        let pk2 = pk.clone();
        let mut s = sched::g().m.lock().unwrap();
        s.peek_fn = Some(Box::new(move || {
            let g = pk2.lock().unwrap();
            match g.as_ref() {
                Some(p) => {
                    let k = unsafe { p.peek(|x: &P| x.id()) };
                    sched::PeekLite { q: k.queue, wl: k.wait_list, rb: k.recv_blocking, sc: k.send_count, rc: k.recv_count }
                }
                None => sched::PeekLite::default(),
            }
        }));
        PEEKER_DROP.lock().unwrap().replace(Box::new(move || {
            pk.lock().unwrap().take();
        }));
    }
    for c in CUR_HANDLE.iter() {
        c.0.store(0, SeqCst);
    }
    let mut joins = Vec::new();
    for (pi, (p, hs)) in procs.iter().zip(tables.into_iter()).enumerate() {
        let ops = p["ops"].as_array().cloned().unwrap_or_default();
        let hs = SendBox(hs);
        joins.push(
            std::thread::Builder::new()
                .stack_size(1 << 20)
                .spawn(move || {
                    let hs = hs;
                    let marker = 0u8;
                    sched::stack_region(pi, &marker as *const u8 as usize, 1 << 20);
                    sched::thread_start(pi);
                    let mut pr = Proc::<P> { pi, hs: hs.0, futs: vec![], fut_h: vec![], oid: 0, quarantine: vec![], drains: 0 };
                    // a panic escaping an API call's own catch (harness or corrupted state) must not lose the baton
                    let escaped = catch_unwind(AssertUnwindSafe(|| {
                        for op in &ops {
                            pr.exec(op);
                        }
                    }))
                    .is_err();
                    if escaped {
                        sched::record(sched::H_POINT, 0, 666, 0, None);
                        std::mem::forget(std::mem::take(&mut pr.hs));
                        std::mem::forget(std::mem::take(&mut pr.futs));
                        sched::thread_finish();
                        return SendBox(vec![]);
                    }
                    // epilogue: give everything back
                    for fi in 0..pr.futs.len() {
                        if !matches!(pr.futs[fi], Fut::None) {
                            pr.exec(&serde_json::json!({"op":"drop_fut","f":fi,"auto":1}));
                        }
                    }
                    for h in 0..pr.hs.len() {
                        if !matches!(pr.hs[h], H::Gone) {
                            pr.exec(&serde_json::json!({"op":"drop","h":h,"auto":1}));
                        }
                    }
                    sched::thread_finish();
                    SendBox(pr.quarantine)
                })
                .unwrap(),
        );
    }
    // the epilogue closer: releases whatever is still blocked once nothing else can run
    let closer = std::thread::Builder::new()
        .stack_size(1 << 20)
        .spawn(move || {
            let pi = n;
            sched::thread_start(pi);
            for q in 0..n {
                let k = CUR_HANDLE[q].0.load(SeqCst);
                let p = CUR_HANDLE[q].1.load(SeqCst);
                if k == 0 || !sched::is_unfinished(q) {
                    continue;
                }
                let oid = (pi as u32 + 1) * 1000 + 1;
                sched::point(sched::H_BEGIN, 0, oid as u64, 0);
                sched::annotate(format!(
                    "\"o\":{},\"op\":\"close\",\"sd\":\"{}\",\"hc\":\"\",\"h\":0,\"m\":0,\"d\":0,\"f\":0,\"w\":0,\"pre\":0,\"spare\":0,\"none\":false,\"pv\":[]",
                    oid,
                    if k <= 2 { "s" } else { "r" }
                ));
                let r = unsafe {
                    match k {
                        1 => (*(p as *const Sender<P>)).close(),
                        2 => (*(p as *const AsyncSender<P>)).close(),
                        3 => (*(p as *const Receiver<P>)).close(),
                        _ => (*(p as *const AsyncReceiver<P>)).close(),
                    }
                };
                sched::record(
                    sched::H_END,
                    0,
                    oid as u64,
                    0,
                    Some(format!(
                        "\"o\":{},\"r\":\"{}\",\"v\":0,\"vs\":[],\"opt\":false",
                        oid,
                        if r.is_ok() { "Ok" } else { "CloseErr" }
                    )),
                );
                break;
            }
            sched::thread_finish();
        })
        .unwrap();
    let mut out = sched::control(n + 1);
    if !out.stuck && !out.over_budget {
        let mut q = Vec::new();
        for j in joins {
            if let Ok(x) = j.join() {
                q.push(x);
            }
        }
        let _ = closer.join();
        // the channel allocation goes away with the harness' own reference
        sched::free_run(n + 1, true);
        if let Some(f) = PEEKER_DROP.lock().unwrap().take() {
            f()
        }
        let extra = sched::free_run(n + 1, false);
        out.log.extend(extra);
        for x in q {
            for (p, l) in x.0 {
                unsafe { std::alloc::dealloc(p, l) }
            }
        }
    } else {
        // abandoned execution: its threads, handles and futures are leaked on purpose
        PEEKER_DROP.lock().unwrap().take().map(std::mem::forget);
    }
    RunResult { out, n_procs: n }
}

static PEEKER_DROP: Mutex<Option<Box<dyn FnOnce() + Send>>> = Mutex::new(None);

struct SendBox<T>(T);
unsafe impl<T> Send for SendBox<T> {}


/// C17 scenario: processes contend on the raw spin lock of kanal (re-exported under cfg(kanal_verif)) through
/// lock / try_lock / unlock and touch a monitored plain cell inside the critical section.
pub fn run_mutex(prog: &Value, strat: Strat) -> RunResult {
    use lock_api::RawMutex;
    struct Shared {
        m: kanal::verif::RawMutexLock,
        cell: std::cell::UnsafeCell<u64>,
    }
    unsafe impl Sync for Shared {}
    let procs = prog["procs"].as_array().cloned().unwrap_or_default();
    let n = procs.len();
    let sh: &'static Shared = Box::leak(Box::new(Shared { m: kanal::verif::RawMutexLock::INIT, cell: std::cell::UnsafeCell::new(0) }));
    let mut phase_of: Vec<u32> = procs.iter().map(|p| gu(p, "phase") as u32).collect();
    let maxp = phase_of.iter().cloned().max().unwrap_or(0);
    phase_of.push(maxp + 1);
    sched::reset(n + 1, strat, phase_of);
    {
        let mut s = sched::g().m.lock().unwrap();
        for l in s.lockspin.iter_mut() {
            *l = true; // failing lock attempts are what this scenario is about
        }
    }
    let mut joins = Vec::new();
    for (pi, p) in procs.iter().enumerate() {
        let ops = p["ops"].as_array().cloned().unwrap_or_default();
        joins.push(
            std::thread::Builder::new()
                .stack_size(1 << 20)
                .spawn(move || {
                    sched::thread_start(pi);
                    let mut held = false;
                    let mut oid = (pi as u32 + 1) * 1000;
                    for op in &ops {
                        let name = gs(op, "op");
                        let ok = match name {
                            "spin_cond" => true,
                            "lock" | "try_lock" => !held,
                            "unlock" | "write" | "read" => held,
                            _ => false,
                        };
                        if !ok {
                            continue;
                        }
                        oid += 1;
                        sched::point(sched::H_BEGIN, 0, oid as u64, 0);
                        sched::annotate(format!("\"o\":{},\"op\":\"{}\",\"K\":{}", oid, name, gu(op, "K")));
                        if name == "spin_cond" {
                            // the lock's back-off loop driven by a scripted condition: false K times, then true
                            let k = gu(op, "K");
                            let calls = std::cell::Cell::new(0u64);
                            kanal::verif::spin_cond(|| {
                                calls.set(calls.get() + 1);
                                calls.get() > k
                            });
                            sched::record(sched::H_END, 0, oid as u64, 0,
                                          Some(format!("\"o\":{},\"r\":\"Ok\",\"calls\":{},\"K\":{}", oid, calls.get(), k)));
                            continue;
                        }
                        let r = match name {
                            "lock" => {
                                sh.m.lock();
                                held = true;
                                "Ok"
                            }
                            "try_lock" => {
                                if sh.m.try_lock() {
                                    held = true;
                                    "Ok"
                                } else {
                                    "Busy"
                                }
                            }
                            "unlock" => {
                                unsafe { sh.m.unlock() };
                                held = false;
                                "Ok"
                            }
                            "write" => {
                                sched::point(kanal::verif::PTR_WRITE, sh.cell.get() as usize, 8, 0);
                                unsafe { *sh.cell.get() += 1 };
                                "Ok"
                            }
                            _ => {
                                sched::point(kanal::verif::PTR_READ, sh.cell.get() as usize, 8, 0);
                                let _ = unsafe { *sh.cell.get() };
                                "Ok"
                            }
                        };
                        sched::record(sched::H_END, 0, oid as u64, 0, Some(format!("\"o\":{},\"r\":\"{}\"", oid, r)));
                    }
                    if held {
                        oid += 1;
                        sched::point(sched::H_BEGIN, 0, oid as u64, 0);
                        sched::annotate(format!("\"o\":{},\"op\":\"unlock\"", oid));
                        unsafe { sh.m.unlock() };
                        sched::record(sched::H_END, 0, oid as u64, 0, Some(format!("\"o\":{},\"r\":\"Ok\"", oid)));
                    }
                    sched::thread_finish();
                })
                .unwrap(),
        );
    }
    let closer = std::thread::Builder::new()
        .spawn(move || {
            sched::thread_start(n);
            sched::thread_finish();
        })
        .unwrap();
    let out = sched::control(n + 1);
    if !out.stuck && !out.over_budget {
        for j in joins {
            let _ = j.join();
        }
        let _ = closer.join();
    }
    RunResult { out, n_procs: n }
}
