//! Tagged payloads of every size class.  They own no heap memory: `Drop` only
//! records an event, so a double drop or a drop of garbage is observed, not UB.
use crate::sched;

pub const GARBAGE: u64 = 2_000_000_000;

pub trait Payload: Send + 'static {
    const NAME: &'static str;
    const CLASS: &'static str; // zst | inline | indirect
    const TAGGED: bool; // carries its id
    const DROPS: bool; // records drops
    fn make(id: u32) -> Self;
    /// id, or GARBAGE if the bits are not a value `make` produces
    fn id(&self) -> u64;
    /// the id `make(id)` reports, computed without creating a value
    fn id_of(id: u32) -> u64 {
        if Self::TAGGED {
            id as u64
        } else {
            0
        }
    }
}

fn rec_drop(id: u64) {
    sched::record(sched::H_DROP, 0, id, 0, None);
}

const K: u64 = 0x9E37_79B9_7F4A_7C15;
fn mix(id: u32) -> u64 {
    (id as u64).wrapping_mul(K).rotate_left(17) ^ 0xA5A5_5A5A_C3C3_3C3C
}

/// pointer-sized, drop glue: inline class
pub struct W1(pub usize);
impl Payload for W1 {
    const NAME: &'static str = "w1";
    const CLASS: &'static str = "inline";
    const TAGGED: bool = true;
    const DROPS: bool = true;
    fn make(id: u32) -> Self {
        W1(((mix(id) & 0xFFFF_FFFF) << 32 | id as u64) as usize)
    }
    fn id(&self) -> u64 {
        let v = self.0 as u64;
        let id = (v & 0xFFFF_FFFF) as u32;
        if v >> 32 == mix(id) & 0xFFFF_FFFF {
            id as u64
        } else {
            GARBAGE
        }
    }
}
impl Drop for W1 {
    fn drop(&mut self) {
        rec_drop(self.id())
    }
}

/// 4 bytes, drop glue: inline class, smaller than a pointer
pub struct H4(pub u32);
impl Payload for H4 {
    const NAME: &'static str = "h4";
    const CLASS: &'static str = "inline";
    const TAGGED: bool = true;
    const DROPS: bool = true;
    fn make(id: u32) -> Self {
        H4(((mix(id) as u32 & 0xFFFF) << 16) | (id & 0xFFFF))
    }
    fn id_of(id: u32) -> u64 {
        (id & 0xFFFF) as u64
    }
    fn id(&self) -> u64 {
        let id = self.0 & 0xFFFF;
        if self.0 >> 16 == (mix(id) as u32 & 0xFFFF) {
            id as u64
        } else {
            GARBAGE
        }
    }
}
impl Drop for H4 {
    fn drop(&mut self) {
        rec_drop(self.id())
    }
}

/// three words, drop glue: indirect class
pub struct B3(pub [u64; 3]);
impl Payload for B3 {
    const NAME: &'static str = "b3";
    const CLASS: &'static str = "indirect";
    const TAGGED: bool = true;
    const DROPS: bool = true;
    fn make(id: u32) -> Self {
        B3([id as u64, mix(id), !mix(id).rotate_left(7)])
    }
    fn id(&self) -> u64 {
        let id = self.0[0];
        if id < GARBAGE && self.0[1] == mix(id as u32) && self.0[2] == !mix(id as u32).rotate_left(7) {
            id
        } else {
            GARBAGE
        }
    }
}
impl Drop for B3 {
    fn drop(&mut self) {
        rec_drop(self.id())
    }
}

/// padded repr(C) struct larger than a pointer, drop glue: indirect class
#[repr(C)]
pub struct P5 {
    a: u8,
    b: u64,
    c: u8,
    d: u32,
    e: u64,
}
impl Payload for P5 {
    const NAME: &'static str = "p5";
    const CLASS: &'static str = "indirect";
    const TAGGED: bool = true;
    const DROPS: bool = true;
    fn make(id: u32) -> Self {
        let m = mix(id);
        P5 {
            a: m as u8,
            b: id as u64,
            c: (m >> 8) as u8,
            d: (m >> 16) as u32,
            e: !m,
        }
    }
    fn id(&self) -> u64 {
        let id = self.b;
        if id >= GARBAGE {
            return GARBAGE;
        }
        let m = mix(id as u32);
        if self.a == m as u8 && self.c == (m >> 8) as u8 && self.d == (m >> 16) as u32 && self.e == !m {
            id
        } else {
            GARBAGE
        }
    }
}
impl Drop for P5 {
    fn drop(&mut self) {
        rec_drop(self.id())
    }
}

/// plain small integers without drop glue: every bit pattern is a value
#[derive(Clone, Copy)]
pub struct U8(pub u8);
impl Payload for U8 {
    const NAME: &'static str = "u8";
    const CLASS: &'static str = "inline";
    const TAGGED: bool = true;
    const DROPS: bool = false;
    fn make(id: u32) -> Self {
        U8(id as u8)
    }
    fn id_of(id: u32) -> u64 {
        (id & 0xFF) as u64
    }
    fn id(&self) -> u64 {
        self.0 as u64
    }
}
#[derive(Clone, Copy)]
pub struct U16(pub u16);
impl Payload for U16 {
    const NAME: &'static str = "u16";
    const CLASS: &'static str = "inline";
    const TAGGED: bool = true;
    const DROPS: bool = false;
    fn make(id: u32) -> Self {
        U16(id as u16)
    }
    fn id_of(id: u32) -> u64 {
        (id & 0xFFFF) as u64
    }
    fn id(&self) -> u64 {
        self.0 as u64
    }
}

/// zero-sized with drop glue: identity-less, drops are counted (id 0)
pub struct Z0;
impl Payload for Z0 {
    const NAME: &'static str = "z0";
    const CLASS: &'static str = "zst";
    const TAGGED: bool = false;
    const DROPS: bool = true;
    fn make(_: u32) -> Self {
        Z0
    }
    fn id(&self) -> u64 {
        0
    }
}
impl Drop for Z0 {
    fn drop(&mut self) {
        rec_drop(0)
    }
}

/// over-aligned zero-sized type
#[repr(align(64))]
pub struct Z64;
impl Payload for Z64 {
    const NAME: &'static str = "z64";
    const CLASS: &'static str = "zst";
    const TAGGED: bool = false;
    const DROPS: bool = true;
    fn make(_: u32) -> Self {
        Z64
    }
    fn id(&self) -> u64 {
        if (self as *const Self as usize) % 64 == 0 {
            0
        } else {
            GARBAGE
        }
    }
}
impl Drop for Z64 {
    fn drop(&mut self) {
        rec_drop(0)
    }
}
