//! Baton-passing scheduler: every controlled thread stops at each shim hook
//! (a pre-event), exactly one thread runs between two hooks, and every choice
//! (who runs, clock ticks, spurious wake-ups) goes through a recorded chooser so
//! that an execution is reproducible from (program, decisions).
use kanal::verif as kv;
use std::cell::Cell;
use std::collections::HashMap;
use std::sync::{Condvar, Mutex, MutexGuard, OnceLock};

pub const NONE: usize = usize::MAX;
pub const CTRL: usize = usize::MAX - 1;

// harness-level event kinds (kanal::verif kinds are < 200)
pub const H_START: u32 = 200;
pub const H_FINISH: u32 = 201;
pub const H_BEGIN: u32 = 202; // API call begins; extra = json
pub const H_END: u32 = 203; // API call ends; extra = json
pub const H_DROP: u32 = 204; // payload dropped; a = id, b = flags
pub const WK_CLONE: u32 = 205; // a = logical waker
pub const WK_WAKE: u32 = 206; // a = logical waker, b = 1 by value / 0 by ref
pub const WK_DROP: u32 = 207;
pub const WAIT_WAKER: u32 = 208; // harness-level await: a = logical waker; r = 1 woken / 0 spurious
pub const H_PHASE: u32 = 209; // controller advanced the phase; a = new phase
pub const H_TICK: u32 = 210; // clock advanced; a = new now
pub const H_POINT: u32 = 211; // plain scheduling point inside harness code
pub const H_FUTBORN: u32 = 214; // a harness-allocated future has been created; addr = its box, a = size
pub const H_FUTDEAD: u32 = 213; // a harness-allocated future has been dropped; addr = its box
pub const H_BARRIER: u32 = 212; // the process waits until the phase counter reaches a

pub const TICK: u64 = 1000; // virtual nanoseconds per tick

#[derive(Clone, Copy, PartialEq, Debug)]
pub enum TSt {
    NotStarted,
    AtHook,
    Running,
    Done,
}

#[derive(Clone, Debug, Default)]
pub struct PeekLite {
    pub q: Vec<u64>,
    pub wl: Vec<usize>,
    pub rb: bool,
    pub sc: u32,
    pub rc: u32,
}

#[derive(Clone, Debug)]
pub struct Ev {
    pub t: usize,
    pub kind: u32,
    pub addr: usize,
    pub a: u64,
    pub b: u64,
    pub r: u64,
    pub r2: u64,
    pub now: u64,
    pub extra: Option<String>,
    pub peek: Option<PeekLite>, // channel state just before this event took effect
}

#[derive(Clone, Copy, Debug)]
struct Pending {
    kind: u32,
    addr: usize,
    a: u64,
    b: u64,
}

#[derive(Clone, Debug)]
pub struct Strat {
    pub seed: u64,
    pub p_switch: f64,
    pub spin_bias: f64,  // probability to keep a spinning thread running when others are enabled
    pub q_tick: f64,     // probability that a clock read advances the clock
    pub p_spurious: f64, // probability of a spurious unpark / spurious poll when possible
    pub max_spurious: u32,
    pub parallelism: u64,
    pub freeze: Option<(usize, u64)>, // (thread, k): stop thread at its k-th scheduling point
    pub freeze_kind: u32,             // 0 = count every scheduling point of the victim, else only those of this hook kind
    pub freeze_solo: bool,            // until it freezes the victim runs alone (from freeze_from on)
    pub freeze_from: u32,             // ... counting only the scheduling points it reaches from this phase on
    pub lockspin_all: bool,           // every thread may execute lock attempts that fail (a peer frozen inside a critical section)
    pub tick_after: u32,              // a spinning timed waiter gets forced clock ticks after this many clock reads
    pub script: Vec<u32>,             // recorded decisions to follow (replay)
    pub max_steps: u64,
    pub follow: Vec<i32>, // spec -> impl replay: process to move at each model-visible step (-1 = clock tick)
    pub tick_phase: u32, // forced clock ticks for spinning timed waiters only from this phase on
}

impl Default for Strat {
    fn default() -> Self {
        Strat {
            seed: 1,
            p_switch: 0.3,
            spin_bias: 0.5,
            q_tick: 0.1,
            p_spurious: 0.1,
            max_spurious: 2,
            parallelism: 16,
            freeze: None,
            freeze_from: 0,
            freeze_solo: false,
            freeze_kind: 0,
            tick_after: 40,
            lockspin_all: false,
            script: vec![],
            max_steps: 200_000,
            tick_phase: 0,
            follow: vec![],
        }
    }
}

pub struct Sched {
    pub n: usize,
    pub cur: usize,
    pub st: Vec<TSt>,
    pending: Vec<Option<Pending>>,
    pub phase_of: Vec<u32>,
    pub phase: u32,
    pub max_phase: u32,
    pub token: Vec<bool>,
    pub woken: Vec<bool>,
    pub realtime: Vec<bool>, // thread is inside a *_realtime call: failing lock attempts are enabled
    pub lockspin: Vec<bool>, // thread may execute failing lock attempts (lock-level scenarios)
    pub spin: Vec<u32>,
    pub hooks_seen: Vec<u64>,
    pub frozen: Option<usize>,
    pub spurious_used: u32,
    pub atom: HashMap<usize, u64>,
    pub lock_addr: usize,
    pub lock_holder: usize,
    pub dirty: bool,
    pub now: u64,
    pub log: Vec<Ev>,
    pub last_ev: Vec<usize>,
    pub decisions: Vec<u32>,
    pub script_pos: usize,
    pub diverged: bool,
    pub rng: u64,
    pub strat: Strat,
    pub steps: u64,
    pub stuck: bool,
    pub over_budget: bool,
    pub aborted: bool,
    pub hung: bool,
    pub peek_fn: Option<Box<dyn Fn() -> PeekLite + Send>>,
    pub regions: Vec<(usize, usize, usize, usize)>, // (addr, size, proc, future slot)
    pub stacks: Vec<(usize, usize)>,
    pub follow_pos: usize,
    pub follow_div: u32,
    pub last_kind: Vec<(u32, u64)>,
}

pub struct G {
    pub m: Mutex<Sched>,
    pub cv: Condvar,
}

static G_: OnceLock<G> = OnceLock::new();
thread_local! { pub static ME: Cell<usize> = const { Cell::new(NONE) }; pub static MY_EPOCH: Cell<u64> = const { Cell::new(0) }; }
static EPOCH: std::sync::atomic::AtomicU64 = std::sync::atomic::AtomicU64::new(0);

pub fn g() -> &'static G {
    G_.get_or_init(|| G {
        m: Mutex::new(Sched::new(0, Strat::default(), vec![])),
        cv: Condvar::new(),
    })
}

pub fn me() -> usize {
    ME.with(|c| c.get())
}

const SPIN_LIMIT: u32 = 700;

impl Sched {
    pub fn new(n: usize, strat: Strat, phase_of: Vec<u32>) -> Sched {
        let max_phase = phase_of.iter().cloned().max().unwrap_or(0);
        Sched {
            n,
            cur: CTRL,
            st: vec![TSt::NotStarted; n],
            pending: vec![None; n],
            phase_of,
            phase: 0,
            max_phase,
            token: vec![false; n],
            woken: vec![false; 64],
            realtime: vec![false; n],
            lockspin: vec![false; n],
            spin: vec![0; n],
            hooks_seen: vec![0; n],
            frozen: None,
            spurious_used: 0,
            atom: HashMap::new(),
            lock_addr: 0,
            lock_holder: NONE,
            dirty: true,
            now: 1_000_000,
            log: Vec::new(),
            last_ev: vec![NONE; n],
            decisions: Vec::new(),
            script_pos: 0,
            diverged: false,
            rng: strat.seed.wrapping_mul(0x9E3779B97F4A7C15) | 1,
            strat,
            steps: 0,
            stuck: false,
            over_budget: false,
            aborted: false,
            hung: false,
            peek_fn: None,
            regions: Vec::new(),
            stacks: vec![(0, 0); n],
            follow_pos: 0,
            follow_div: 0,
            last_kind: vec![(0, 0); n],
        }
    }

    fn rnd(&mut self) -> u64 {
        // xorshift64*
        let mut x = self.rng;
        x ^= x >> 12;
        x ^= x << 25;
        x ^= x >> 27;
        self.rng = x;
        x.wrapping_mul(0x2545F4914F6CDD1D)
    }
    fn rndf(&mut self) -> f64 {
        (self.rnd() >> 11) as f64 / (1u64 << 53) as f64
    }

    /// A recorded decision: tag 1 = thread choice, 2 = tick (0/1), 3 = spurious (0/1)
    fn decide_val(&mut self, tag: u32, random: u32, valid: impl Fn(u32) -> bool) -> u32 {
        let mut v = random;
        if self.script_pos < self.strat.script.len() {
            let d = self.strat.script[self.script_pos];
            self.script_pos += 1;
            if d >> 24 == tag && valid(d & 0xFFFFFF) {
                v = d & 0xFFFFFF;
            } else {
                self.diverged = true;
            }
        }
        self.decisions.push(tag << 24 | v);
        v
    }

    fn is_spinning(&self, i: usize) -> bool {
        self.spin[i] > SPIN_LIMIT
    }

    fn enabled(&self, i: usize, allow_idle: bool) -> bool {
        if self.st[i] != TSt::AtHook || self.phase_of[i] > self.phase {
            return false;
        }
        if self.frozen == Some(i) {
            return false;
        }
        let p = match self.pending[i] {
            Some(p) => p,
            None => return false,
        };
        match p.kind {
            kv::PARK => self.token[i] || self.can_spur(),
            WAIT_WAKER => self.woken[p.a as usize] || self.can_spur(),
            H_BARRIER => self.phase as u64 >= p.a,
            kv::AB_CAS => {
                let cur = *self.atom.get(&p.addr).unwrap_or(&0);
                let expect = p.a >> 8;
                if cur != expect && expect == 0 && !self.realtime[i] && !self.lockspin[i] && !self.strat.lockspin_all {
                    return false; // a blocking lock attempt that would fail: not worth executing
                }
                allow_idle || !self.is_spinning(i)
            }
            _ => allow_idle || !self.is_spinning(i),
        }
    }
    fn can_spur(&self) -> bool {
        self.strat.p_spurious > 0.0 && self.spurious_used < self.strat.max_spurious
    }

    /// Pick the next thread to run among the enabled ones; None = quiescent.
    /// does the specification (Kanal.tla) have an action for this pending hook event?
    fn model_visible(&self, i: usize) -> bool {
        let p = match self.pending[i] {
            Some(p) => p,
            None => return false,
        };
        let mine = {
            let a = p.addr;
            (i < self.stacks.len() && a >= self.stacks[i].0 && a < self.stacks[i].1)
                || self.regions.iter().any(|(ad, sz, pr, _)| *pr == i && a >= *ad && a < ad + sz)
        };
        match p.kind {
            kv::AB_CAS | kv::AB_STORE | kv::A8_LOAD | kv::A8_CAS | kv::A8_STORE | kv::NOW | kv::PARK | kv::UNPARK
            | kv::FIELD_WRITE | WK_WAKE | H_BEGIN => true,
            WK_CLONE => p.b == 0,
            kv::NOTE => p.a == 1 || !mine,
            kv::CELL_GET => {
                let (lk, lr) = self.last_kind[i];
                lk == kv::THREAD_CURRENT || (lk == kv::A8_CAS && lr == 0)
            }
            kv::FIELD_READ => mine && self.last_kind[i].0 == kv::A8_LOAD,
            _ => false,
        }
    }

    fn decide(&mut self, from: usize) -> Option<usize> {
        // spec -> impl replay: follow the process order of a TLC-generated behaviour as far as possible
        while self.follow_pos < self.strat.follow.len() {
            let e = self.strat.follow[self.follow_pos];
            if e < 0 {
                self.now += TICK;
                self.follow_pos += 1;
                continue;
            }
            let e = e as usize;
            if e >= self.n || !self.enabled(e, true) {
                // the model's step is not possible here (finished, blocked, or the code took another path): skip it
                if e < self.n && self.st[e] == TSt::Done {
                } else {
                    self.follow_div += 1;
                }
                self.follow_pos += 1;
                continue;
            }
            if self.model_visible(e) {
                self.follow_pos += 1;
            }
            return Some(e);
        }
        // solo sweep: from the given phase on, and until it freezes, the victim runs alone (so that exactly its first
        // k - 1 scheduling points of that phase precede everything the others do: one preemption, at a chosen point)
        if self.strat.freeze_solo && self.frozen.is_none() && self.phase >= self.strat.freeze_from {
            if let Some((t, _)) = self.strat.freeze {
                if t < self.n && self.enabled(t, false) {
                    let hard = match self.pending[t] {
                        Some(p) if p.kind == kv::PARK => self.token[t],
                        Some(p) if p.kind == WAIT_WAKER => self.woken[p.a as usize],
                        _ => true,
                    };
                    if hard && self.spin[t] < 60 {
                        return Some(t);
                    }
                }
            }
        }
        let mut en: Vec<usize> = (0..self.n).filter(|&i| self.enabled(i, false)).collect();
        // threads blocked only by a spurious possibility are offered rarely
        let mut hard: Vec<usize> = en
            .iter()
            .cloned()
            .filter(|&i| match self.pending[i] {
                Some(p) if p.kind == kv::PARK => self.token[i],
                Some(p) if p.kind == WAIT_WAKER => self.woken[p.a as usize],
                _ => true,
            })
            .collect();
        if hard.is_empty() {
            // only spinners / spurious candidates: let idle spinners go on only if nothing else exists
            en = (0..self.n).filter(|&i| self.enabled(i, false)).collect();
            hard = vec![];
        }
        let pool: Vec<usize> = if !hard.is_empty() {
            let p_spur = self.strat.p_spurious;
            if en.len() > hard.len() && self.rndf() < p_spur {
                en.clone()
            } else {
                hard
            }
        } else if !en.is_empty() {
            // every enabled thread is only spuriously enabled: that is quiescence, except while a thread is frozen
            // (the freeze strategy wants the others, woken spuriously, to run on alone)
            if self.frozen.is_some() {
                en.clone()
            } else {
                vec![]
            }
        } else {
            vec![]
        };
        if pool.is_empty() {
            return None;
        }
        let pick = if pool.len() == 1 {
            pool[0]
        } else {
            let keep = pool.contains(&from) && {
                let ps = self.strat.p_switch;
                let sb = self.strat.spin_bias;
                let spinning = self.spin[from] > 2;
                let r = self.rndf();
                if spinning {
                    r < sb
                } else {
                    r >= ps
                }
            };
            let k = (self.rnd() % pool.len() as u64) as usize;
            let random = if keep { from } else { pool[k] };
            let pool2 = pool.clone();
            self.decide_val(1, random as u32, move |v| pool2.contains(&(v as usize))) as usize
        };
        Some(pick)
    }

    fn apply_freeze(&mut self, i: usize) {
        if let Some((t, k)) = self.strat.freeze {
            if t == i && self.hooks_seen[i] == k && self.frozen.is_none() {
                self.frozen = Some(i);
            }
        }
    }

    /// The event of thread `i` takes effect now: log it and compute the hook's return value.
    fn perform(&mut self, i: usize) -> u64 {
        let p = self.pending[i].take().expect("perform without pending");
        self.st[i] = TSt::Running;
        self.steps += 1;
        if self.steps > self.strat.max_steps {
            self.over_budget = true;
        }
        let mut r = 0u64;
        let mut ret = 0u64;
        match p.kind {
            kv::THREAD_CURRENT => {
                ret = i as u64;
                r = ret;
            }
            kv::NOW => {
                let q = self.strat.q_tick;
                let force = self.spin[i] > self.strat.tick_after && self.phase >= self.strat.tick_phase;
                let rnd = (self.rndf() < q) as u32;
                let tick = if force { 1 } else { self.decide_val(2, rnd, |v| v < 2) };
                if tick == 1 {
                    self.now += TICK;
                }
                ret = self.now;
                r = ret;
                self.spin[i] += 1;
            }
            kv::PARALLELISM | kv::USIZE_LOAD => {
                ret = self.strat.parallelism;
                r = ret;
            }
            kv::PARK => {
                if self.token[i] {
                    self.token[i] = false;
                    r = 1;
                } else {
                    self.spurious_used += 1;
                    r = 0; // spurious return
                }
            }
            WAIT_WAKER => {
                if self.woken[p.a as usize] {
                    self.woken[p.a as usize] = false;
                    r = 1;
                } else {
                    self.spurious_used += 1;
                    r = 0;
                }
                ret = r;
            }
            kv::UNPARK => {
                if (p.a as usize) < self.n {
                    self.token[p.a as usize] = true;
                }
            }
            kv::YIELD => {
                self.spin[i] += 1;
                if p.a == 2 {
                    self.now += p.b.min(10 * TICK); // sleeping lets time pass
                }
            }
            kv::A8_STORE | kv::AB_STORE => {
                self.atom.insert(p.addr, p.a);
                self.spin_reset_all();
                if p.kind == kv::AB_STORE && p.a == 0 && self.lock_holder == i {
                    self.lock_holder = NONE;
                }
            }
            WK_WAKE => {
                self.woken[p.a as usize] = true;
                self.spin_reset_all();
            }
            kv::A8_LOAD | kv::AB_LOAD | kv::FENCE | kv::A8_CAS | kv::AB_CAS => {}
            _ => {
                self.spin[i] = 0;
            }
        }
        let peek = if self.dirty {
            self.dirty = false;
            self.peek_fn.as_ref().map(|f| f())
        } else {
            None
        };
        if self.lock_holder == i {
            self.dirty = true;
        }
        self.last_kind[i] = (p.kind, 1);
        self.last_ev[i] = self.log.len();
        self.log.push(Ev {
            t: i,
            kind: p.kind,
            addr: p.addr,
            a: p.a,
            b: p.b,
            r,
            r2: 0,
            now: self.now,
            extra: None,
            peek,
        });
        ret
    }

    fn spin_reset_all(&mut self) {
        for s in self.spin.iter_mut() {
            *s = 0;
        }
    }

    fn result(&mut self, i: usize, addr: usize, a: u64, b: u64) {
        let idx = self.last_ev[i];
        if idx == NONE {
            return;
        }
        let (kind, pa) = {
            let e = &mut self.log[idx];
            e.r = a;
            e.r2 = b;
            (e.kind, e.a)
        };
        self.last_kind[i] = (kind, a);
        match kind {
            kv::A8_CAS | kv::AB_CAS => {
                if a == 1 {
                    self.atom.insert(addr, pa & 0xFF);
                    self.spin_reset_all();
                    if kind == kv::AB_CAS {
                        self.lock_addr = addr;
                        self.lock_holder = i;
                        self.dirty = true;
                    }
                } else {
                    self.atom.insert(addr, b);
                    if kind == kv::AB_CAS {
                        self.spin[i] += 25; // a failed lock attempt: a lock spinner becomes idle after a few dozen of them
                    }
                }
            }
            kv::A8_RMW | kv::AB_RMW => {
                self.atom.insert(addr, b);
                self.spin_reset_all();
            }
            kv::A8_LOAD | kv::AB_LOAD => {
                self.atom.insert(addr, a);
            }
            _ => {}
        }
    }
}

fn stale() -> bool {
    MY_EPOCH.with(|c| c.get()) != EPOCH.load(std::sync::atomic::Ordering::SeqCst)
}

fn wait_for_baton(me: usize, mut s: MutexGuard<'static, Sched>) -> MutexGuard<'static, Sched> {
    loop {
        if me != CTRL && stale() {
            // thread of an abandoned execution: never runs again
            drop(s);
            loop {
                std::thread::sleep(std::time::Duration::from_secs(3600));
            }
        }
        if s.cur == me && !(me != CTRL && s.aborted) {
            return s;
        }
        s = g().cv.wait(s).unwrap();
    }
}

/// Hand the baton on (called with thread `me` standing at a hook, or finished).
fn pass_on(me: usize, mut s: MutexGuard<'static, Sched>) -> MutexGuard<'static, Sched> {
    if s.over_budget || s.aborted {
        s.aborted = true;
        s.cur = CTRL;
        g().cv.notify_all();
        // a thread of an aborted execution never runs again
        drop(s);
        loop {
            std::thread::sleep(std::time::Duration::from_secs(3600));
        }
    }
    match s.decide(me) {
        Some(n) => s.cur = n,
        None => s.cur = CTRL,
    }
    if s.cur != me {
        g().cv.notify_all();
    }
    s
}

/// A scheduling point of a controlled thread.
pub fn point(kind: u32, addr: usize, a: u64, b: u64) -> u64 {
    let me = me();
    if me == NONE {
        return kv::PASS;
    }
    if me == CTRL {
        record(kind, addr, a, b, None);
        return kv::PASS;
    }
    let mut s = g().m.lock().unwrap();
    s.pending[me] = Some(Pending { kind, addr, a, b });
    s.st[me] = TSt::AtHook;
    if s.phase >= s.strat.freeze_from && (s.strat.freeze_kind == 0 || s.strat.freeze_kind == kind) {
        s.hooks_seen[me] += 1;
        s.apply_freeze(me);
    }
    s = pass_on(me, s);
    s = wait_for_baton(me, s);
    s.perform(me)
}

/// A logged event that is not a scheduling point.
pub fn record(kind: u32, addr: usize, a: u64, b: u64, extra: Option<String>) {
    let me = me();
    if me == NONE {
        return;
    }
    let mut s = g().m.lock().unwrap();
    let now = s.now;
    if kind == WK_WAKE {
        s.woken[a as usize] = true;
        s.spin_reset_all();
    }
    s.log.push(Ev {
        t: me,
        kind,
        addr,
        a,
        b,
        r: 0,
        r2: 0,
        now,
        extra,
        peek: None,
    });
}

pub fn hook(kind: u32, addr: usize, a: u64, b: u64) -> u64 {
    let me = me();
    if me == NONE || me == CTRL {
        return kv::PASS;
    }
    match kind {
        kv::RESULT => {
            let mut s = g().m.lock().unwrap();
            s.result(me, addr, a, b);
            0
        }
        kv::YIELD if a == 0 => 0, // spin_loop hint: pure busy-wait, not an event
        kv::OBJ_DEAD | kv::THREAD_CLONE | kv::PTR_COPY => {
            record(kind, addr, a, b, None);
            0
        }
        _ => point(kind, addr, a, b),
    }
}

pub fn thread_start(me_: usize) {
    ME.with(|c| c.set(me_));
    MY_EPOCH.with(|c| c.set(EPOCH.load(std::sync::atomic::Ordering::SeqCst)));
    let mut s = g().m.lock().unwrap();
    s.pending[me_] = Some(Pending {
        kind: H_START,
        addr: 0,
        a: 0,
        b: 0,
    });
    s.st[me_] = TSt::AtHook;
    g().cv.notify_all();
    s = wait_for_baton(me_, s);
    s.perform(me_);
}

pub fn thread_finish() {
    let me = me();
    let mut s = g().m.lock().unwrap();
    let now = s.now;
    s.log.push(Ev {
        t: me,
        kind: H_FINISH,
        addr: 0,
        a: 0,
        b: 0,
        r: 0,
        r2: 0,
        now,
        extra: None,
        peek: None,
    });
    s.st[me] = TSt::Done;
    s.pending[me] = None;
    ME.with(|c| c.set(NONE));
    match s.decide(me) {
        Some(n) => s.cur = n,
        None => s.cur = CTRL,
    }
    g().cv.notify_all();
}

pub fn set_realtime(on: bool) {
    let me = me();
    if me == NONE {
        return;
    }
    g().m.lock().unwrap().realtime[me] = on;
}

pub fn annotate(extra: String) {
    let me = me();
    if me == NONE || me == CTRL {
        return;
    }
    let mut s = g().m.lock().unwrap();
    let idx = s.last_ev[me];
    if idx != NONE {
        s.log[idx].extra = Some(extra);
    }
}

pub fn region(addr: usize, size: usize, fi: usize) {
    let me = me();
    if me == NONE || me == CTRL {
        return;
    }
    g().m.lock().unwrap().regions.push((addr, size, me, fi));
    record(H_FUTBORN, addr, size as u64, 0, None);
}

pub fn stack_region(pi: usize, top: usize, size: usize) {
    let mut s = g().m.lock().unwrap();
    if pi < s.stacks.len() {
        // `top` is a local of the thread's outermost closure: everything kanal puts on this stack lies below it.
        // Keep clear of both ends so that neighbouring mappings (other stacks, malloc arenas) are never claimed.
        s.stacks[pi] = (top.saturating_sub(size - 16384), top + 64);
    }
}

pub fn is_unfinished(q: usize) -> bool {
    let s = g().m.lock().unwrap();
    q < s.n && s.st[q] != TSt::Done
}

/// After the controlled part: the calling (main) thread logs events as CTRL without scheduling.
pub fn free_run(_n: usize, on: bool) -> Vec<Ev> {
    ME.with(|c| c.set(if on { CTRL } else { NONE }));
    if on {
        vec![]
    } else {
        std::mem::take(&mut g().m.lock().unwrap().log)
    }
}

pub struct Outcome {
    pub regions: Vec<(usize, usize, usize, usize)>,
    pub stacks: Vec<(usize, usize)>,
    pub log: Vec<Ev>,
    pub decisions: Vec<u32>,
    pub stuck: bool,
    pub over_budget: bool,
    pub diverged: bool,
    pub follow_div: u32,
    pub hung: bool,
    pub stuck_threads: Vec<usize>,
    pub stuck_pending: Vec<u32>,
    pub steps: u64,
    pub final_peek: Option<PeekLite>,
}

/// Controller: drives an execution whose threads have been spawned and will call `thread_start`.
pub fn control(n: usize) -> Outcome {
    let mut s = g().m.lock().unwrap();
    // wait until every thread stands at its start hook
    while !(0..n).all(|i| s.st[i] == TSt::AtHook) {
        s = g().cv.wait(s).unwrap();
    }
    loop {
        // hand the baton to some enabled thread, or advance phases
        if s.aborted {
            break;
        }
        if (0..n).all(|i| s.st[i] == TSt::Done) {
            break;
        }
        match s.decide(NONE) {
            Some(t) => {
                s.cur = t;
                g().cv.notify_all();
                // wait for the baton; a controlled thread that vanished or hangs outside any hook is detected by a
                // watchdog (no scheduling step for 20 s of wall-clock time)
                let mut last = s.steps;
                let mut idle = 0;
                loop {
                    if s.cur == CTRL {
                        break;
                    }
                    let (g2, to) = g().cv.wait_timeout(s, std::time::Duration::from_secs(5)).unwrap();
                    s = g2;
                    if to.timed_out() {
                        if s.steps == last {
                            idle += 1;
                        } else {
                            idle = 0;
                            last = s.steps;
                        }
                        if idle >= 4 {
                            s.hung = true;
                            s.stuck = true;
                            s.aborted = true;
                            break;
                        }
                    }
                }
                if s.hung {
                    break;
                }
            }
            None => {
                // quiescent: unfreeze, go to the next phase, or declare the execution stuck
                if s.frozen.is_some() {
                    s.frozen = None;
                    s.strat.freeze = None;
                    s.spin_reset_all();
                    continue;
                }
                if s.phase < s.max_phase {
                    s.phase += 1;
                    s.spin_reset_all();
                    let (now, ph) = (s.now, s.phase);
                    s.log.push(Ev {
                        t: CTRL,
                        kind: H_PHASE,
                        addr: 0,
                        a: ph as u64,
                        b: 0,
                        r: 0,
                        r2: 0,
                        now,
                        extra: None,
                        peek: None,
                    });
                    continue;
                }
                s.stuck = true;
                s.aborted = true;
                break;
            }
        }
    }
    let stuck_threads: Vec<usize> = (0..n).filter(|&i| s.st[i] != TSt::Done).collect();
    let stuck_pending: Vec<u32> = stuck_threads.iter().map(|&i| s.pending[i].map(|p| p.kind).unwrap_or(0)).collect();
    let final_peek = s.peek_fn.as_ref().map(|f| f());
    s.peek_fn = None;
    Outcome {
        regions: s.regions.clone(),
        stacks: s.stacks.clone(),
        log: std::mem::take(&mut s.log),
        decisions: std::mem::take(&mut s.decisions),
        stuck: s.stuck,
        over_budget: s.over_budget,
        diverged: s.diverged,
        follow_div: s.follow_div,
        hung: s.hung,
        stuck_threads,
        stuck_pending,
        steps: s.steps,
        final_peek,
    }
}

pub fn reset(n: usize, strat: Strat, phase_of: Vec<u32>) {
    kv::set_hook(Some(hook));
    let mut s = g().m.lock().unwrap();
    EPOCH.fetch_add(1, std::sync::atomic::Ordering::SeqCst);
    *s = Sched::new(n, strat, phase_of);
}
