#!/usr/bin/env python3
"""Self-test of the machinery (DESIGN.md section 10): spec mutants that TLC must refute (anti-vacuity of the
invariants), the pinned-tree switch FIX = FALSE (the defects D2, D5/D6 at design level), and binding demonstrations
(a corrupted field / a removed hook event in a recorded real trace must be rejected at that line).
usage: selftest/run.py   (needs the harness built; ~2-3 min)"""
import json, os, random, re, shutil, subprocess, sys
V = os.path.dirname(os.path.dirname(os.path.abspath(__file__)))
sys.path.insert(0, os.path.join(V, "tools"))
import vlib, gen

WD = vlib.workdir("selftest")
SP = os.path.join(WD, "spec")
ok_all = True


def fresh_spec():
    shutil.rmtree(SP, ignore_errors=True)
    shutil.copytree(vlib.SPEC, SP)


def tlc(module, cfg, workers=8, timeout=300, env=None, dfs=False):
    e = dict(os.environ)
    e["JAVA_TOOL_OPTIONS"] = "-Xss1g -Xmx6g" + (" -Dtlc2.tool.queue.IStateQueue=StateDeque" if dfs else "")
    if env:
        e.update(env)
    meta = os.path.join(WD, "meta")
    shutil.rmtree(meta, ignore_errors=True)
    p = subprocess.run(["timeout", str(timeout), "tlc", "-workers", str(workers), "-metadir", meta, "-cleanup",
                        "-noGenerateSpecTE", "-config", cfg, module + ".tla"], cwd=SP, env=e, stdout=subprocess.PIPE,
                       stderr=subprocess.STDOUT, text=True)
    return p.stdout


def expect(name, out, pattern):
    global ok_all
    hit = re.search(pattern, out) is not None
    print("%-70s %s" % (name, "refuted as expected" if hit else "NOT REFUTED  <-- self-test failure"))
    ok_all &= hit


def spec_mutant(name, module, cfg, fname, old, new, pattern, cfg_edit=None):
    fresh_spec()
    p = os.path.join(SP, fname)
    s = open(p).read()
    assert old in s, (name, "pattern not found")
    open(p, "w").write(s.replace(old, new, 1))
    if cfg_edit:
        c = os.path.join(SP, cfg)
        t = open(c).read()
        for a, b in cfg_edit:
            assert a in t
            t = t.replace(a, b)
        open(c, "w").write(t)
    expect(name, tlc(module, cfg), pattern)


# ---- the pinned tree at design level
spec_mutant("Kanal FIX=FALSE timed: D2 double drop (Once)", "MC_Kanal", "MC_Kanal_timed.cfg", "Kanal.tla", "x", "x",
            r"Invariant (Once|NoLeak) is violated", [("FIX = TRUE", "FIX = FALSE")])
spec_mutant("Kanal FIX=FALSE async: D5/D6 stale waker (LatestWoken)", "MC_Kanal", "MC_Kanal_async.cfg", "Kanal.tla", "x", "x",
            r"Invariant (LatestWoken|ListedAreArmed|Once) is violated|argument of Assert", [("FIX = TRUE", "FIX = FALSE")])
# ---- L2 mutants
spec_mutant("Kanal: admission test <= instead of < (CapOK)", "MC_Kanal", "MC_Kanal_sync.cfg", "Kanal.tla",
            "IF Len(C.queue) < Cap THEN\n        IF async", "IF Len(C.queue) <= Cap THEN\n        IF async", r"Invariant (CapOK|WaitShape) is violated")
def multi_mutant(name, module, cfg, fname, edits, pattern):
    fresh_spec()
    p = os.path.join(SP, fname)
    s = open(p).read()
    for old, new in edits:
        assert old in s, (name, old[:40])
        s = s.replace(old, new, 1)
    open(p, "w").write(s)
    expect(name, tlc(module, cfg), pattern)


multi_mutant("Kanal: unpark before the final store (lost wake-up, NoStuck)", "MC_Kanal", "MC_Kanal_sync.cfg", "Kanal.tla",
             [('  /\\ LSet(p, [pc |-> "k_store"]) /\\ UNCHANGED <<C, S, token, woken, now, G>>',
               '  /\\ LSet(p, [pc |-> "k_unpark"]) /\\ UNCHANGED <<C, S, token, woken, now, G>>'),
              ('  /\\ SSet(L[p].tgt, [st |-> L[p].fin]) /\\ LSet(p, [pc |-> "k_unpark"])\n  /\\ UNCHANGED <<C, token, woken, now, G>>',
               '  /\\ SSet(L[p].tgt, [st |-> L[p].fin]) /\\ ApplyTail(p, <<>>)\n  /\\ UNCHANGED <<token, woken, now>>'),
              ('  /\\ L[p].pc = "k_unpark" /\\ token\' = [token EXCEPT ![L[p].tgt] = TRUE]\n  /\\ ApplyTail(p, <<>>) /\\ UNCHANGED <<S, woken, now>>',
               '  /\\ L[p].pc = "k_unpark" /\\ token\' = [token EXCEPT ![L[p].tgt] = TRUE]\n  /\\ LSet(p, [pc |-> "k_store"]) /\\ UNCHANGED <<C, G, S, woken, now>>')],
             r"Invariant NoStuck is violated|is violated")
spec_mutant("Kanal: blocked sender pushed to the front (PerProducerFifo)", "MC_Kanal", "MC_Kanal_sync.cfg", "Kanal.tla",
            "[c |-> c0 @@ [wl |-> Append(C.wl, p)], s |-> SyncReg(p, L[p].msg),", "[c |-> c0 @@ [wl |-> <<p>> \\o C.wl], s |-> SyncReg(p, L[p].msg),",
            r"Invariant (PerProducerFifo|Fifo|FifoNow) is violated")
spec_mutant("Kanal: timeout cancel does not remove the entry (NothingLeftBehind)", "MC_Kanal", "MC_Kanal_timed.cfg", "Kanal.tla",
            "     [c |-> [wl |-> Remove(C.wl, p)], s |-> <<>>,\n      l |-> IF L[p].ctx", "     [c |-> <<>>, s |-> <<>>,\n      l |-> IF L[p].ctx",
            r"returned while still listed|is violated")
# ---- liveness (FairSpec): without fairness of the clock a timed waiter spins for ever -> Completes must be refuted
spec_mutant("Kanal: no fairness of Tick (Completes)", "MC_Kanal", "MC_Kanal_live_timed.cfg", "Kanal.tla",
            "Fairness == WF_vars(Tick) /\\ \\A p \\in Procs : WF_vars(Step(p))", "Fairness == \\A p \\in Procs : WF_vars(Step(p))",
            r"Temporal propert(y|ies) .* violated|Temporal properties were violated")
# ---- closed is final: close() forgets to clear the buffer -> ClosedShape (ghost G.closed)
spec_mutant("Kanal: close does not clear the buffer (ClosedShape)", "MC_Kanal", "MC_Kanal_closeclone.cfg", "Kanal.tla",
            'ELSE TermStart(p, [sc |-> 0, rc |-> 0], "ret", TRUE)', 'ELSE TermStart(p, [sc |-> 0, rc |-> 0], "ret", FALSE)',
            r"Invariant (ClosedShape|NoLeak) is violated")
# ---- L2 |= L1 link: a wrong L2 (refill pushes to the front) must produce behaviours the ideal channel rejects
def l2l1_mutant():
    global ok_all
    import l2l1
    fresh_spec()
    pth = os.path.join(SP, "Kanal.tla")
    t = open(pth).read()
    old = '[] ct = "refill" -> [c |-> [queue |-> Append(C.queue, L[p].cw)]'
    assert old in t
    open(pth, "w").write(t.replace(old, '[] ct = "refill" -> [c |-> [queue |-> <<L[p].cw>> \\o C.queue]'))
    saved = vlib.SPEC
    vlib.SPEC = SP
    try:
        import collections
        try:
            l2l1.run_stage(vlib.workdir("selftest_l2l1"), "thorough", 3, collections.defaultdict(int), [])
            hit = False
        except vlib.ToolError as e:
            hit = "rejected by" in str(e)
    finally:
        vlib.SPEC = saved
    print("%-70s %s" % ("L2 |= L1: refill pushes to the front -> a simulated L2 behaviour is rejected", "refuted as expected" if hit else "NOT REFUTED  <-- self-test failure"))
    ok_all &= hit
l2l1_mutant()
# ---- SignalHB: every memory ordering of the hand-off protocol is needed (weakening any one of them is refuted)
def signalhb_matrix():
    global ok_all
    for o in ("RelCasK", "AcqFailK", "RelStoreK", "RelCasW", "AcqFailW", "AcqFence", "AcqParkLoad", "AcqTimedLoad", "UnlockRel", "LockAcq",
              "RegisterUnderLock"):
        hit = False
        for k in ("sync", "timed", "async"):
            for sd in ("send", "recv"):
                fresh_spec()
                c = os.path.join(SP, "MC_SignalHB_%s_%s.cfg" % (k, sd))
                t = open(c).read()
                open(c, "w").write(t.replace("  %s = TRUE" % o, "  %s = FALSE" % o))
                if "Invariant NoRace is violated" in tlc("SignalHB", "MC_SignalHB_%s_%s.cfg" % (k, sd), workers=2):
                    hit = True
                    break
            if hit:
                break
        print("%-70s %s" % ("SignalHB: %s weakened (NoRace)" % o, "refuted as expected" if hit else "NOT REFUTED  <-- self-test failure"))
        ok_all &= hit
signalhb_matrix()
# ---- L1 mutants
spec_mutant("KanalAtomic: admission <= (ShapeOK)", "MC_KanalAtomic", "MC_KanalAtomic_2p.cfg", "KanalAtomic.tla",
            "ELSE IF Len(s.ch.buf) < s.ch.cap THEN [k |-> \"buf\"", "ELSE IF Len(s.ch.buf) <= s.ch.cap THEN [k |-> \"buf\"", r"Invariant ShapeOK is violated")
spec_mutant("KanalAtomic: last-handle drop does not release waiters (NoOrphans)", "MC_KanalAtomic", "MC_KanalAtomic_2p.cfg", "KanalAtomic.tla",
            "s2 == IF mine = 1 /\\ other # 0", "s2 == IF mine = 7 /\\ other # 0", r"Invariant (NoOrphans|ShapeOK) is violated")
spec_mutant("KanalAtomic: clone does not count (CountsOK)", "MC_KanalAtomic", "MC_KanalAtomic_2p.cfg", "KanalAtomic.tla",
            "(IF s.ch.sc > 0 THEN [s EXCEPT !.ch.sc = @ + 1] ELSE s)", "s", r"Invariant CountsOK is violated")
# ---- lock
spec_mutant("SpinMutex: unlock store Relaxed (NoRace)", "SpinMutex", "MC_SpinMutex.cfg", "SpinMutex.tla", "x", "x",
            r"Invariant NoRace is violated", [('RelOrd = "release"', 'RelOrd = "relaxed"')])
spec_mutant("SpinMutex: lock gives up after a failed attempt (LockReturnsOnlyWhenHeld)", "SpinMutex", "MC_SpinMutex.cfg", "SpinMutex.tla",
            'ELSE pc\' = [pc EXCEPT ![t] = "backoff"] /\\ UNCHANGED res', 'ELSE pc\' = [pc EXCEPT ![t] = "idle"] /\\ UNCHANGED res',
            r"Invariant LockReturnsOnlyWhenHeld is violated")

# ---- SpinCond: a back-off whose burst size wraps to zero never checks the condition again
spec_mutant("SpinCond: geometric back-off wraps to 0 (NeverIdle / Terminates)", "SpinCond", "MC_SpinCond.cfg", "SpinCond.tla",
            "spins' = IF spins < SpinCap THEN spins * 2 ELSE spins", "spins' = IF spins < SpinCap THEN spins * 2 ELSE 0",
            r"Invariant NeverIdle is violated|Temporal properties were violated")
# ---- TLAPS: the mutual-exclusion proof must break when unlock() is allowed from outside the critical section
def tlaps_mutant():
    global ok_all
    fresh_spec()
    pth = os.path.join(SP, "SpinMutex.tla")
    t = open(pth).read()
    old = 'Unlock(t) ==\n  /\\ pc[t] \\in {"held", "held2"}'
    assert old in t
    open(pth, "w").write(t.replace(old, 'Unlock(t) ==\n  /\\ pc[t] \\in {"held", "held2", "backoff"}'))
    p = subprocess.run(["timeout", "600", "tlapm", "--threads", "8", "--cleanfp", "--cache-dir", os.path.join(WD, "tlacache"), "SpinMutexProof.tla"],
                       cwd=SP, stdout=subprocess.PIPE, stderr=subprocess.STDOUT, text=True)
    hit = re.search(r"All \d+ obligations? proved", p.stdout) is None
    print("%-70s %s" % ("SpinMutexProof: unlock from a waiting thread -> proof fails", "refuted as expected" if hit else "NOT REFUTED  <-- self-test failure"))
    ok_all &= hit
tlaps_mutant()
# ---- binding demonstrations on a real recorded execution
fresh_spec()
rng = random.Random(5)
progs = [gen.gen_program(rng, "l2", cap=1) for _ in range(25)]
pf = os.path.join(WD, "p.ndjson")
open(pf, "w").write("".join(json.dumps(p) + "\n" for p in progs))
r = vlib.run_harness(pf, WD, "bind", execs=1, seed=3, raw=True)
hist = open(r["hist"]).read().split("\n")
# (a) corrupt one received value
for k, l in enumerate(hist):
    if '"e":"E"' in l and '"r":"Ok"' in l and json.loads(l)["v"] not in (0,) and json.loads(l)["v"] < 190:
        e = json.loads(l)
        e["v"] += 1
        hist2 = list(hist)
        hist2[k] = json.dumps(e)
        tf = os.path.join(WD, "corrupt.hist.ndjson")
        open(tf, "w").write("\n".join(hist2))
        out = tlc("KanalAtomicTrace", "KanalAtomicTrace.cfg", workers=1, env={"TRACE": tf}, dfs=True)
        expect("binding: received value corrupted at history line %d -> L1 rejects there" % (k + 1), out, r'"REJECTED-AT",\s*%d\b' % (k + 1))
        break
# (b) remove one hook event (an unlock store) from the raw trace
raw = open(r["raw"]).read().split("\n")
idx = [k for k, l in enumerate(raw) if '"k":"ab_store"' in l]
k = idx[len(idx) // 2]
raw2 = raw[:k] + raw[k + 1:]
tf = os.path.join(WD, "nohook.raw.ndjson")
open(tf, "w").write("\n".join(raw2))
out = tlc("KanalTrace", "KanalTrace.cfg", workers=1, env={"TRACE": tf}, dfs=True, timeout=300)
m = re.search(r'"REJECTED-AT",\s*(\d+)', out)
expect("binding: unlock event removed at raw line %d -> L2 conformance rejects shortly after" % (k + 1), out if m and k <= int(m.group(1)) <= k + 60 else "", r"REJECTED-AT")
# (c) swap two events of different threads around a critical section boundary
for k in range(len(raw) - 1):
    a, b = raw[k], raw[k + 1]
    if '"k":"ab_store"' in a and '"k":"ab_cas"' in b and '"r":1' in b and json.loads(a)["t"] != json.loads(b)["t"]:
        raw3 = list(raw)
        raw3[k], raw3[k + 1] = b, a
        tf = os.path.join(WD, "swap.raw.ndjson")
        open(tf, "w").write("\n".join(raw3))
        out = tlc("KanalTrace", "KanalTrace.cfg", workers=1, env={"TRACE": tf}, dfs=True, timeout=300)
        expect("binding: lock acquired before the previous unlock (events swapped at raw line %d) -> rejected" % (k + 1), out, r'"REJECTED-AT",\s*%d\b' % (k + 1))
        break
print("SELFTEST", "OK" if ok_all else "FAILED")
sys.exit(0 if ok_all else 1)
