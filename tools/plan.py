"""Per-property check plans and the generic check runner."""
import re, json, os, random, sys, time, glob
import vlib, gen
from vlib import log

Q, T = 0, 1  # tier index

ASSUME_COMMON = [
    "TLC explores the specification only for the constants of each registered configuration",
    "real executions are sequentially consistent interleavings at shim-hook granularity (one thread runs between two hooks)",
    "trusted base: TLC, the cfg(kanal_verif) shim (src/verif.rs), the baton-passing scheduler and interpreter in /verif/harness",
]

# which L1 rejections (by the operation of the first unexplained record) a property's check owns
OBS_COUNT = {"sender_count", "receiver_count"}
L1_ATTR = {
    "C03": None,  # all
    "C18": None,
    "C19": {"drain_into"},
    "C12": OBS_COUNT | {"clone", "clone_sync", "clone_async", "drop", "to_sync", "to_async", "is_closed"},
    "C14": {"try_send", "try_send_option", "try_send_realtime", "try_send_option_realtime", "try_recv",
            "try_recv_realtime", "drain_into"},
    "C08": {"try_send", "try_send_option", "len", "is_full", "is_empty", "capacity", "is_bounded"},
    "C13": {"send_timeout", "send_option_timeout", "recv_timeout"},
    "C16": {"poll", "poll_next", "W"},
    "C15": {"drop_fut"},
    "C10": {"close"},
    "C11": {"drop"},
    "C05": {"D", "Z"},
    "C01": {"Z"},
    "C06": {"W"},
    "C09": None,
}

# plan: runs = list of dict(profile, n=(quick, thorough), execs=(q, t), monitor=Prop for KanalHistory or None, l1=bool)
def R(profile, n, execs, monitor, l1=False, **kw):
    d = dict(profile=profile, n=n, execs=execs, monitor=monitor, l1=l1)
    d.update(kw)
    return d


def MC(*cfgs, thorough=None, bounded=None):
    out = []
    for c in cfgs:
        out.append(dict(module="MC_Kanal", cfg=("MC_Kanal_%s.cfg" % c, "MC_Kanal_%s.cfg" % c)))
    for c in (thorough or []):
        out.append(dict(module="MC_Kanal", cfg=(None, "MC_Kanal_%s.cfg" % c)))
    for c in (bounded or []):
        out.append(dict(module="MC_Kanal", cfg=(None, "MC_Kanal_%s.cfg" % c), bounded=True, timeout=(240, 1500)))
    return out


def SHB():
    """design-level happens-before model of the Signal hand-off (SignalHB.tla), all owner kinds x sides"""
    return [dict(module="SignalHB", cfg=("MC_SignalHB_%s_%s.cfg" % (k, sd),) * 2, workers=(2, 2)) for k in ("sync", "timed", "async") for sd in ("send", "recv")]


def MCA(*cfgs):
    return [dict(module="MC_KanalAtomic", cfg=("MC_KanalAtomic_%s.cfg" % c, "MC_KanalAtomic_%s.cfg" % c)) for c in cfgs]


def seq_programs(tier, seed):
    rng = random.Random("seq/%d" % seed)
    if tier == "quick":
        ps = list(gen.gen_seq_exhaustive(2, [0, 1, 2, None]))
        ps += list(gen.gen_seq_core(3, [1]))
        ps += list(gen.gen_seq_core(2, [0, 2, None], flav="aa"))
        ps += list(gen.gen_seq_random(rng, 600))
        ps += list(gen.gen_seq_futs())
        ps += list(gen.gen_seq_hidden(caps=(2,), depth=3, flavs=("ss",)))
        ps += list(gen.gen_seq_fill())
    else:
        ps = list(gen.gen_seq_exhaustive(2, [0, 1, 2, None], flavs=("ss", "aa", "sa", "as")))
        ps += list(gen.gen_seq_exhaustive(3, [0, 1]))
        ps += list(gen.gen_seq_core(3, [0, 2, None]))
        ps += list(gen.gen_seq_core(4, [1], flav="aa"))
        ps += list(gen.gen_seq_random(rng, 20000, lengths=(4, 5, 6, 8, 10, 12)))
        ps += list(gen.gen_seq_futs(caps=(0, 1, 2, 3), ks=(3, 4, 5), flavs=("aa", "sa")))
        ps += list(gen.gen_seq_hidden(caps=(1, 2, 3), depth=3, flavs=("ss", "aa")))
        ps += list(gen.gen_seq_fill(ns=(15, 16, 17, 31, 32, 33, 63, 64, 65, 127, 128, 129, 255, 256, 257), caps=(None, 300)))
    return ps


def hidden_programs(tier, seed):
    if tier == "quick":
        return list(gen.gen_seq_hidden(caps=(2,), depth=3, flavs=("ss",)))
    return list(gen.gen_seq_hidden(caps=(1, 2, 3), depth=3, flavs=("ss", "aa")))


def handle_programs(tier, seed):
    if tier == "quick":
        return list(gen.handle_seq_programs(1)) + list(gen.handle_seq_programs(2)) + list(gen.handle_seq_programs(3, flavs=("aa", "ss"), prefill=(1,)))
    return list(gen.handle_seq_programs(3)) + list(gen.handle_seq_programs(4, flavs=("aa", "sa"), prefill=(1,)))


def hbfreeze_programs(tier, seed):
    """C07 freeze sweep: for each base scenario the releasing process is frozen before its k-th hook for every k,
    while parked owners may wake up spuriously and run to their return."""
    rng = random.Random("hbfreeze/%d" % seed)
    nb, kmax = (14, 30) if tier == "quick" else (150, 45)
    out = []
    for _ in range(nb):
        base = gen.gen_progress(rng) if rng.random() < 0.75 else gen.gen_chain(rng)
        victim = len(base["procs"]) - 1 if rng.random() < 0.8 else rng.randrange(len(base["procs"]))
        for k in range(1, kmax + 1):
            p = json.loads(json.dumps(base))
            st = dict(p.get("strat", {}))
            st.update({"freeze": [victim, k], "p_spurious": 0.5, "max_spurious": 3, "seed": rng.randrange(1 << 30)})
            p["strat"] = st
            p["execs"] = 1
            out.append(p)
    return out


def freeze_sweep(profile, nb, kmax, tag, victims=None, from_phase=0, solo=0):
    """programs_fn: base programs of a profile, each re-run with one process frozen before its k-th hook, k = 1..kmax"""
    def fn(tier, seed):
        rng = random.Random("%s/%d" % (tag, seed))
        n, km = (nb[0], kmax[0]) if tier == "quick" else (nb[1], kmax[1])
        out = []
        for _ in range(n):
            base = gen.gen_program(rng, profile)
            if len(base["procs"]) < 2:
                continue
            victim = rng.choice(victims) if victims else rng.randrange(len(base["procs"]))
            for k in range(1, km + 1):
                p = json.loads(json.dumps(base))
                st = dict(p.get("strat", {}))
                st.update({"freeze": [victim, k, from_phase, solo], "p_spurious": 0.5, "max_spurious": 3, "seed": rng.randrange(1 << 30)})
                p["strat"] = st
                p["execs"] = 1
                out.append(p)
        return out
    return fn


def integrity_race_sweep(nq, kmax, tag):
    """programs_fn: C04 race scenarios (gen.gen_integrity_race) over the payload classes, the claimer (process 1) cut before each hook"""
    def fn(tier, seed):
        rng = random.Random("%s/%d" % (tag, seed))
        n, km = (nq[0], kmax[0]) if tier == "quick" else (nq[1], kmax[1])
        out = []
        pls = ["w1", "h4", "b3", "p5", "u16", "u8"]
        for j in range(n):
            base = gen.gen_integrity_race(rng, j + 11 * seed, pls[j % len(pls)])
            for k in range(1, km + 1):
                p = json.loads(json.dumps(base))
                st = dict(p.get("strat", {}))
                st.update({"freeze": [1, k, 1, 1], "p_spurious": 0.7, "max_spurious": 4, "seed": rng.randrange(1 << 30)})
                p["strat"] = st
                p["execs"] = 1
                out.append(p)
        return out
    return fn


def lockbusy_sweep(kinds, kmax, tag, nthird=(3, 7)):
    """programs_fn: actor call x third-party call (gen.gen_lockbusy); the third party (process 1) is cut before each of its hooks"""
    def fn(tier, seed):
        rng = random.Random("%s/%d" % (tag, seed))
        km = kmax[0] if tier == "quick" else kmax[1]
        thirds = list(gen.LOCKBUSY_THIRD)
        rng.shuffle(thirds)
        thirds = thirds[:nthird[0] if tier == "quick" else nthird[1]]
        out = []
        for kind in kinds:
            for actor in gen.LOCKBUSY_ACTORS[kind]:
                for third in thirds:
                    base = gen.gen_lockbusy(rng, actor, third)
                    for k in range(1, km + 1):
                        p = json.loads(json.dumps(base))
                        st = dict(p.get("strat", {}))
                        st.update({"freeze": [1, k, 1, 1], "p_spurious": 0.0, "seed": rng.randrange(1 << 30)})
                        p["strat"] = st
                        p["execs"] = 1
                        out.append(p)
        return out
    return fn


KIND_CUTS = [(3, (1, 2)),      # a8_cas: compare_exchange on a signal state
             (2, (1, 2)),      # a8_store: final store / reset of a signal state
             (7, (1, 2, 3)),   # ab_cas: acquisition of the channel lock
             (6, (1, 2)),      # ab_store: release of the channel lock
             (14, (1,)),       # park
             (15, (1,)),       # unpark
             (26, (1, 2)),     # write of the waker field
             (206, (1,)),      # waker wake
             (12, (1,)), (11, (1,))]   # payload write / read through a raw pointer


def kind_sweep(base_fn, nb, tag, from_phase=0):
    """programs_fn: base scenarios, each re-run with one process cut (solo) exactly before its n-th hook of one kind
    (compare_exchange / store on a signal, lock acquisition / release, park / unpark, waker write / wake, payload copy)"""
    def fn(tier, seed):
        rng = random.Random("%s/%d" % (tag, seed))
        n = nb[0] if tier == "quick" else nb[1]
        out = []
        for _ in range(n):
            base = base_fn(rng)
            np_ = len(base["procs"])
            for victim in range(np_):
                for kind, ns in KIND_CUTS:
                    for k in ns:
                        p = json.loads(json.dumps(base))
                        st = dict(p.get("strat", {}))
                        st.update({"freeze": [victim, k, from_phase, 1], "freeze_kind": kind, "p_spurious": 0.5, "max_spurious": 3,
                                   "seed": rng.randrange(1 << 30)})
                        p["strat"] = st
                        p["execs"] = 1
                        out.append(p)
        return out
    return fn


def handlepair_sweep(kmax, tag, nrand=(40, 600)):
    """programs_fn: every clone / convert variant of both sides against close (and random other pairs), the first process cut before each
    of its hooks of the race phase"""
    def fn(tier, seed):
        rng = random.Random("%s/%d" % (tag, seed))
        km = kmax[0] if tier == "quick" else kmax[1]
        pairs = [(a, b) for a in gen.HANDLE_PAIR_OPS if a[0].startswith("clone") or a[0].startswith("to_") for b in (("close", "s"), ("close", "r"))]
        pairs += [(rng.choice(gen.HANDLE_PAIR_OPS), rng.choice(gen.HANDLE_PAIR_OPS)) for _ in range(nrand[0] if tier == "quick" else nrand[1])]
        out = []
        for a, b in pairs:
            base = gen.gen_handlepair(rng, a, b)
            for k in range(1, km + 1):
                p = json.loads(json.dumps(base))
                st = dict(p.get("strat", {}))
                st.update({"freeze": [0, k, 1, 1], "seed": rng.randrange(1 << 30)})
                p["strat"] = st
                p["execs"] = 1
                out.append(p)
        return out
    return fn


def casrace_sweep(tag):
    """programs_fn: waiter kind x event (gen.casrace_combos); the waiter is cut exactly before its n-th compare_exchange on its own
    signal (n = 1, 2) or before its n-th Acquire/Relaxed load of it after the spin phase, while the event runs to the end"""
    def fn(tier, seed):
        rng = random.Random("%s/%d" % (tag, seed))
        out = []
        reps = 1 if tier == "quick" else 6
        for combo in gen.casrace_combos():
            for _ in range(reps):
                base = gen.gen_casrace(rng, combo)
                for kind, ns in ((3, (1, 2)), (14, (1,))):          # a8_cas; park
                    for n in ns:
                        p = json.loads(json.dumps(base))
                        st = dict(p.get("strat", {}))
                        st.update({"freeze": [0, n, 0, 1], "freeze_kind": kind, "seed": rng.randrange(1 << 30)})
                        p["strat"] = st
                        p["execs"] = 1
                        out.append(p)
        return out
    return fn


def lockhold_sweep(nq, kmax, tag):
    """programs_fn: timed call x third-party call combinations (gen.lockhold_combos); the third party (process 1) is cut before each of
    its hooks of the race phase, in particular while it holds the channel lock, exactly when the timed call's deadline expires"""
    def fn(tier, seed):
        rng = random.Random("%s/%d" % (tag, seed))
        combos = gen.lockhold_combos()
        rng.shuffle(combos)
        if tier == "quick":
            combos, km, reps = combos[:nq], kmax[0], 1
        else:
            km, reps = kmax[1], 3
        out = []
        for combo in combos:
            for _ in range(reps):
                base = gen.gen_lockhold(rng, combo)
                for k in range(1, km + 1):
                    p = json.loads(json.dumps(base))
                    st = dict(p.get("strat", {}))
                    st.update({"freeze": [1, k, 1, 1], "p_spurious": 0.3, "max_spurious": 2, "seed": rng.randrange(1 << 30)})
                    p["strat"] = st
                    p["execs"] = 1
                    out.append(p)
        return out
    return fn


def discrace_sweep(nq, kmax, tag):
    """programs_fn: waiter kind x disconnecting event combinations (gen.disc_combos), the first waiter frozen before each of
    its first kmax scheduling points of the race phase, running alone until then (one preemption at a chosen point)"""
    def fn(tier, seed):
        rng = random.Random("%s/%d" % (tag, seed))
        combos = gen.disc_combos()
        rng.shuffle(combos)
        if tier == "quick":
            combos = combos[:nq]
            reps, km = 1, kmax[0]
        else:
            reps, km = 4, kmax[1]
        out = []
        for combo in combos:
            for _ in range(reps):
                base = gen.gen_discrace(rng, combo)
                for k in range(1, km + 1):
                    p = json.loads(json.dumps(base))
                    st = dict(p.get("strat", {}))
                    st.update({"freeze": [0, k, 1, 1], "p_spurious": 0.5, "max_spurious": 3, "seed": rng.randrange(1 << 30)})
                    p["strat"] = st
                    p["execs"] = 1
                    out.append(p)
        return out
    return fn


# L2 conformance stage (hook-level trace validation against Kanal.tla): (programs per capacity, executions each)
L2Q, L2T = (50, 2), (600, 4)

PLANS = {
    "C01": dict(mc=MC("sync", "mixed", thorough=["t_sync"]) + MCA("2p"), spec_l1l0=True, runs=[R("general", (250, 4000), (3, 6), "C01", True), R("sync", (150, 2000), (3, 6), "C01", True),
                      R("async", (150, 2000), (3, 6), "C01", True), R("chain", (100, 2000), (2, 6), "C01", True),
                      R("pollfreeze", (0, 0), (1, 1), "C01", True, programs_fn=freeze_sweep("poll", (12, 200), (30, 45), "pollfreeze01"))]),
    "C02": dict(mc=MC("sync", "mixed", thorough=["t_sync"], bounded=["t_sync4"]), spec_l1l0=True, spec_l2l1=True, runs=[R("chain_s", (250, 4000), (3, 6), "C02", True), R("fifo", (250, 5000), (4, 8), "C02"), R("general", (150, 2000), (3, 5), "C02")]),
    "C03": dict(mc=MC("mixed", "async", thorough=["t_async"], bounded=["t_mixed"]) + MCA("2p"), spec_replay=True, spec_l1l0=True, spec_l2l1=True, runs=[R("general", (400, 8000), (3, 6), None, True), R("sync", (150, 2000), (3, 6), None, True),
                      R("async", (150, 3000), (3, 6), None, True), R("timed", (150, 3000), (3, 6), None, True),
                      R("chain", (150, 3000), (2, 6), None, True), R("close", (200, 3000), (3, 6), None, True),
                      R("pairsweep", (0, 0), (1, 1), None, True, programs_fn=freeze_sweep("pair", (30, 800), (40, 60), "pairsweep", victims=(0, 1), from_phase=3, solo=1)),
                      R("discrace", (0, 0), (1, 1), None, True, programs_fn=discrace_sweep(48, (40, 60), "discrace03")),
                      R("seqhidden", (0, 0), (1, 1), None, True, programs_fn=hidden_programs),
                      R("lockbusy", (0, 0), (1, 1), None, True, programs_fn=lockbusy_sweep(("block", "try", "drain"), (10, 14), "lockbusy03", nthird=(2, 7))),
                      R("termrace", (0, 0), (1, 1), None, True, programs_fn=freeze_sweep("termrace", (10, 150), (14, 20), "termrace03", victims=(0,), from_phase=1, solo=1))]),
    "C05": dict(mc=MC("timed", "async", thorough=["t_async"], bounded=["t_timed"]) + MCA("2p"), spec_l1l0=True, runs=[R("general", (250, 4000), (3, 6), "C05", True), R("timed", (200, 3000), (3, 6), "C05", True),
                      R("async", (200, 3000), (3, 6), "C05", True), R("chain", (100, 2000), (2, 6), "C05", True),
                      R("discrace", (0, 0), (1, 1), "C05", True, programs_fn=discrace_sweep(16, (40, 60), "discrace05")),
                      R("fdropfreeze", (0, 0), (1, 1), "C05", True, programs_fn=freeze_sweep("fdrop", (10, 150), (30, 45), "fdropfreeze05"))]),
    "C07": dict(mc=MC("sync", "async", thorough=["t_sync", "t_async"]) + SHB(),
                runs=[R("hbfreeze", (0, 0), (1, 1), None, False, programs_fn=hbfreeze_programs, rawmon=[("HBMonitor", "HBMonitor.cfg")]),
                      R("fdropfreeze", (0, 0), (1, 1), None, False, programs_fn=freeze_sweep("fdrop", (12, 150), (30, 45), "fdropfreeze"),
                        rawmon=[("HBMonitor", "HBMonitor.cfg")]),
                      R("fdrop", (200, 4000), (3, 6), None, False, rawmon=[("HBMonitor", "HBMonitor.cfg")]),
                      R("general", (200, 4000), (3, 6), None, False, rawmon=[("HBMonitor", "HBMonitor.cfg")]),
                      R("async", (150, 3000), (3, 6), None, False, rawmon=[("HBMonitor", "HBMonitor.cfg")]),
                      R("poll", (150, 3000), (3, 6), None, False, rawmon=[("HBMonitor", "HBMonitor.cfg")]),
                      R("timed", (100, 3000), (3, 6), None, False, rawmon=[("HBMonitor", "HBMonitor.cfg")]),
                      R("pairsweep", (0, 0), (1, 1), None, False, programs_fn=freeze_sweep("pair", (14, 400), (40, 60), "pairsweep7", victims=(0, 1), from_phase=3, solo=1),
                        rawmon=[("HBMonitor", "HBMonitor.cfg")]),
                      R("discrace", (0, 0), (1, 1), None, False, programs_fn=discrace_sweep(12, (40, 60), "discrace07"), rawmon=[("HBMonitor", "HBMonitor.cfg")]),
                      R("kindsweep", (0, 0), (1, 1), None, False, programs_fn=kind_sweep(lambda rng: gen.gen_progress(rng) if rng.random() < 0.6 else gen.gen_casrace(rng), (14, 300), "kind07"),
                        rawmon=[("HBMonitor", "HBMonitor.cfg")])],
                assume=["happens-before is computed from the orderings actually passed to the atomics on sequentially consistent interleavings; stale relaxed reads of weaker-than-SC executions are not enumerated"]),
    "C08": dict(mc=MC("sync", thorough=["t_sync"]), spec_l1l0=True, runs=[R("capacity", (300, 5000), (3, 6), "C08", True), R("general", (150, 2000), (3, 5), "C08", True),
                                                           R("chain_z", (200, 3000), (2, 4), "C08", True), R("chain_s", (100, 2000), (2, 4), "C08", True),
                                                           R("casrace", (0, 0), (1, 1), "C08", True, own_all=True, programs_fn=casrace_sweep("casrace08")),
                                                           R("seqfill", (0, 0), (1, 1), "C08", True, own_all=True, programs_fn=lambda tier, seed: list(gen.gen_seq_fill())),
                                                           R("lockbusy", (0, 0), (1, 1), "C08", True, own_all=True, programs_fn=lockbusy_sweep(("try",), (10, 14), "lockbusy08"))]),
    "C10": dict(mc=MC("sync", "timed", "closeclone", thorough=["t_sync"], bounded=["t_timed"]), spec_l1l0=True, spec_l2l1=True, runs=[R("close", (300, 5000), (3, 6), "C10", True), R("general", (150, 2000), (3, 5), "C10", True),
                      R("discrace", (0, 0), (1, 1), "C10", True, own_all=True, programs_fn=discrace_sweep(48, (40, 60), "discrace10")),
                      R("casrace", (0, 0), (1, 1), "C10", True, own_all=True, programs_fn=casrace_sweep("casrace10"))]),
    "C11": dict(mc=MC("handles", "closeclone", bounded=["t_handles"]), spec_l1l0=True, runs=[R("hseq", (0, 0), (1, 1), "C11", True, programs_fn=handle_programs, own_all=True),
                                        R("disconnect", (300, 5000), (3, 6), "C11", True), R("general", (150, 2000), (3, 5), "C11", True),
                                        R("discrace", (0, 0), (1, 1), "C11", True, own_all=True, programs_fn=discrace_sweep(48, (40, 60), "discrace11")),
                      R("casrace", (0, 0), (1, 1), "C11", True, own_all=True, programs_fn=casrace_sweep("casrace11"))]),
    "C12": dict(mc=MC("handles", "closeclone", bounded=["t_handles"]) + MCA("1p"), spec_l1l0=True, runs=[R("hseq", (0, 0), (1, 1), "C12", True, programs_fn=handle_programs, own_all=True),
                                        R("handles", (300, 5000), (3, 6), "C12", True),
                                        R("handlepair", (0, 0), (1, 1), "C12", True, own_all=True, programs_fn=handlepair_sweep((10, 14), "handlepair12"))]),
    "C13": dict(mc=MC("timed", bounded=["t_timed"]), spec_l1l0=True, runs=[R("timed", (400, 6000), (4, 8), "C13", True), R("chain", (150, 3000), (2, 6), "C13", True),
                                                           R("lockhold", (0, 0), (1, 1), "C13", True, own_all=True, programs_fn=lockhold_sweep(24, (12, 16), "lockhold13")),
                                                           R("casrace", (0, 0), (1, 1), "C13", True, own_all=True, programs_fn=casrace_sweep("casrace13")),
                                                           R("waiters_timed", (250, 4000), (2, 3), "C13", True, own_all=True)]),
    "C04": dict(mc=MC("mixed"), runs=[R("integrity_" + pl, (n, n * 12), (2, 4), "C04", True, own_all=True)
                                      for pl, n in (("u8", 260), ("u16", 120), ("w1", 60), ("h4", 60), ("b3", 60), ("p5", 60), ("z0", 40), ("z64", 40))]
                + [R("integrity_race", (0, 0), (1, 1), "C04", True, own_all=True, programs_fn=integrity_race_sweep((42, 600), (30, 45), "integrace"))],
                assume=["bit patterns: u8 exhaustive (every value on rotating paths), u16 boundary + random, larger classes checksum-tagged ids; the TLA+ side carries identities, bytes are compared by the harness projection id <-> bytes"]),
    "C06": dict(mc=MC("sync", "async", "live_sync", "live_async", "live_timed", thorough=["t_sync", "t_async"]), spec_replay=True, runs=[R("progress", (500, 8000), (3, 6), "ALL", True, own_all=True), R("chain", (100, 2000), (2, 4), None, True, own_all=True),
                                                                R("waiters", (250, 5000), (2, 4), None, True, own_all=True),
                                                                R("casrace", (0, 0), (1, 1), None, True, own_all=True, programs_fn=casrace_sweep("casrace06")),
                                                                R("kindsweep", (0, 0), (1, 1), None, True, own_all=True, programs_fn=kind_sweep(gen.gen_progress, (6, 300), "kind06"))]),
    "C09": dict(mc=MC("mixed", bounded=["t_mixed"]), spec_l1l0=True, runs=[R("mixed", (400, 8000), (3, 6), "C09", True, own_all=True),
                                      R("hseq", (0, 0), (1, 1), "C09", True, programs_fn=handle_programs, own_all=True)]),
    "C14": dict(mc=MC("try"), runs=[R("try", (300, 6000), (3, 6), None, True, rawmon=[("NonBlocking", "NonBlocking.cfg")]),
                                    R("tryfreeze", (300, 6000), (2, 4), None, True, rawmon=[("NonBlocking", "NonBlocking.cfg")]),
                                    R("trystate", (500, 8000), (1, 2), None, True, own_all=True, rawmon=[("NonBlocking", "NonBlocking.cfg")]),
                                    R("lockbusy", (0, 0), (1, 1), None, True, own_all=True, programs_fn=lockbusy_sweep(("try",), (10, 14), "lockbusy14"))]),
    "C15": dict(mc=MC("async", thorough=["t_async"]), runs=[R("fdrop", (400, 8000), (4, 8), "C15", True), R("chain", (200, 3000), (2, 6), "C15", True, own_all=True),
                                      R("fdropfreeze", (0, 0), (1, 1), "C15", True, programs_fn=freeze_sweep("fdrop", (10, 150), (30, 45), "fdropfreeze15"),
                                        rawmon=[("HBMonitor", "HBMonitor.cfg")])]),
    "C16": dict(mc=MC("async", thorough=["t_async"]), spec_l1l0=True, runs=[R("poll", (400, 8000), (4, 8), "C16", True),
                                      R("pollfreeze", (0, 0), (1, 1), "C16", True, programs_fn=freeze_sweep("poll", (14, 200), (30, 45), "pollfreeze"))]),
    "C17": dict(mc=[dict(module="SpinMutex", cfg=("MC_SpinMutex.cfg", "MC_SpinMutex.cfg")),
                    dict(module="SpinCond", cfg=("MC_SpinCond.cfg", "MC_SpinCond.cfg"), workers=(2, 2))], l2=False, tlaps="SpinMutexProof",
                runs=[R("mutex", (200, 6000), (2, 6), None, False, rawmon=[("SpinMutexTrace", "SpinMutexTrace.cfg"), ("HBMonitor", "HBMonitor.cfg")]),
                      R("mutexfreeze", (200, 6000), (2, 4), None, False, rawmon=[("SpinMutexTrace", "SpinMutexTrace.cfg"), ("HBMonitor", "HBMonitor.cfg")]),
                      R("spincond", (120, 3000), (1, 1), None, False, rawmon=[("SpinCondTrace", "SpinCondTrace.cfg")])],
                assume=["in SpinMutex.tla the back-off of spin_cond is an unbounded retry loop (its iteration structure is covered separately by SpinCond.tla / SpinCondTrace with a scripted condition); a frozen lock holder is observed for a bounded number of failed attempts only"]),
    "C18": dict(mc=MCA("1p"), l2=False,
                runs=[R("seq", (0, 0), (1, 1), None, True, programs_fn=seq_programs)],
                assume=["single-thread call sequences: exhaustive up to length 2 (quick) / 3 (thorough) over a 58-call alphabet per capacity, random longer ones"]),
    "C19": dict(mc=MC("mixed", bounded=["t_mixed"]), runs=[R("drain", (300, 5000), (4, 8), None, True), R("chain_s", (150, 3000), (2, 6), None, True),
                                                           R("chain_drain", (250, 4000), (2, 4), None, True, own_all=True),
                                                           R("lockbusy", (0, 0), (1, 1), None, True, own_all=True, programs_fn=lockbusy_sweep(("drain",), (10, 14), "lockbusy19"))]),
}


def l1_owned(prop, rej):
    """does property `prop` own this L1 rejection?"""
    attr = L1_ATTR.get(prop, set())
    if attr is None:
        return True
    rec = json.loads(rej["record"])
    if rec["e"] in ("D", "W", "Z"):
        return rec["e"] in attr
    if rec["e"] == "E":
        for l in rej["lines"]:
            if l.startswith('{"e":"B"'):
                b = json.loads(l)
                if b["o"] == rec["o"]:
                    return b["op"] in attr
    return False


def write_replay(prop, kind, prog, seed, detail, wd, k):
    os.makedirs(os.path.join(vlib.WORK, "replays"), exist_ok=True)
    p = dict(prog)
    st = dict(p.get("strat", {}))
    st["seed"] = seed
    p["strat"] = st
    p["execs"] = 1
    path = os.path.join(vlib.WORK, "replays", "%s_%s_%d.json" % (prop, kind, k))
    with open(path, "w") as f:
        json.dump(dict(property=prop, kind=kind, program=p, detail=detail), f)
    return path


def load_known():
    p = os.path.join(vlib.VERIF, "known_findings.json")
    if not os.path.exists(p):
        return []
    return json.load(open(p)).get("findings", [])


def known_match(prop, kind, detail, known):
    for k in known:
        if k.get("status") == "known" and k.get("property") == prop and k.get("kind") == kind and \
                all(str(detail.get(a)) == str(b) for a, b in k.get("match", {}).items()):
            return k
    return None


def run_one_config(prop, run, tier, seed, wd, tag, stats, findings, programs=None, chunked=False):
    ti = Q if tier == "quick" else T
    rng = random.Random(seed * 1000003 + hash(run["profile"]) % 1000)
    rng = random.Random("%d/%s/%s" % (seed, prop, run["profile"]))
    n = run["n"][ti]
    if programs is None and run.get("programs_fn"):
        programs = run["programs_fn"](tier, seed)
    if programs is None:
        programs = [gen.gen_program(rng, run["profile"]) for _ in range(n)]
    # large program sets are processed in chunks (bounded trace files, bounded validation time per TLC run)
    per = max(1, run["execs"][ti])
    limit = (1200 if run.get("rawmon") else 5000) // per
    if len(programs) > max(limit, 1) and not chunked:
        for j in range(0, len(programs), limit):
            run_one_config(prop, run, tier, seed + 7 * (j // limit), wd, "%sc%d" % (tag, j // limit), stats, findings,
                           programs=programs[j:j + limit], chunked=True)
            for f in os.listdir(wd):
                if f.startswith("%sc%d." % (tag, j // limit)) and (f.endswith(".raw.ndjson") or f.endswith(".hist.ndjson")):
                    try:
                        os.remove(os.path.join(wd, f))
                    except OSError:
                        pass
            if len([f for f in findings if f["kind"] != "crash"]) > 40:
                break
        return
    pf = os.path.join(wd, tag + ".programs.ndjson")
    with open(pf, "w") as f:
        for p in programs:
            f.write(json.dumps(p) + "\n")
    start = 0
    hist_files = []
    part = 0
    while start < len(programs):
        # run (or resume after a crash of the harness process)
        sub = pf
        if start > 0:
            sub = os.path.join(wd, "%s.programs.%d.ndjson" % (tag, start))
            with open(sub, "w") as f:
                for p in programs[start:]:
                    f.write(json.dumps(p) + "\n")
        r = vlib.run_harness(sub, wd, "%s.%d" % (tag, part), execs=run["execs"][ti], seed=seed + part, raw=bool(run.get("rawmon")))
        part += 1
        begun, done = vlib.load_meta(r["meta"])
        stats["executions"] += len(done)
        hist_files.append((r["hist"], r["meta"], start, r.get("raw")))
        if r["rc"] == 0:
            break
        # crashed: the last begun execution has no summary
        crashed = [x for x in begun if x not in done]
        if not crashed:
            raise vlib.ToolError("harness failed (rc=%d) without a crashed execution:\n%s" % (r["rc"], r["out"][-2000:]))
        b = begun[max(crashed)]
        gi = start + b["prog"]
        findings.append(dict(kind="crash", prog=programs[gi], seed=b["seed"],
                             detail=dict(rc=r["rc"], what="harness process died (signal) while executing safe API calls")))
        stats["crashes"] += 1
        start = gi + 1
        if stats["crashes"] > 5:
            break
    for hist, meta, off, rawf in hist_files:
        begun, done = vlib.load_meta(meta)
        execs = vlib.split_hist(hist)
        # drop a trailing partial execution (crash)
        def intact(ls):
            # a crashing harness process can leave damaged lines behind (memory corruption reaches the output buffer)
            if not ls or not ls[-1].startswith('{"e":"Z"'):
                return False
            for l in ls:
                if not l.endswith("}\n") or "\ufffd" in l:
                    return False
                try:
                    json.loads(l)
                except ValueError:
                    return False
            return True
        good = [(x, ls) for x, ls in execs if intact(ls)]
        if len(good) != len(execs):
            with open(hist, "w") as f:
                for _, ls in good:
                    f.writelines(ls)
        stats["events"] += sum(len(ls) for _, ls in good)
        for x, ls in good:
            z = json.loads(ls[-1])
            if z.get("stuck"):
                d = done.get(x, {})
                findings.append(dict(kind="stuck", prog=programs[off + d.get("prog", 0)], seed=d.get("seed", 0),
                                     detail=dict(stuck_ops=z.get("stuck_ops", []))))
                stats["stuck"] += 1
            if z.get("budget"):
                stats["budget"] += 1
            d1 = done.get(x, {})
            gi1 = off + d1.get("prog", 0)
            if gi1 < len(programs) and not z.get("stuck"):
                for det in epilogue_findings(ls, programs[gi1]):
                    findings.append(dict(kind="stuck", prog=programs[gi1], seed=d1.get("seed", 0), detail=det))
                    stats["stuck"] += 1
        if not good:
            continue
        if run.get("monitor"):
            v = vlib.validate_trace("KanalHistory", "KanalHistory_%s.cfg" % run["monitor"], hist, wd)
            stats["l0_states"] += v["distinct"]
            stats["l0_trans"] += v["generated"]
            stats["l0_validated"] += v["accepted"]
            for rj in v["rejected"]:
                d = done.get(rj["x"], {})
                findings.append(dict(kind="l0", prog=programs[off + d.get("prog", 0)], seed=d.get("seed", 0),
                                     detail=dict(monitor=run["monitor"], record=rj["record"], line=rj["line"])))
        if run.get("l1"):
            v = vlib.validate_trace("KanalAtomicTrace", "KanalAtomicTrace.cfg", hist, wd)
            stats["l1_states"] += v["distinct"]
            stats["l1_trans"] += v["generated"]
            stats["l1_validated"] += v["accepted"]
            for rj in v["rejected"]:
                d = done.get(rj["x"], {})
                owned = l1_owned(prop, rj) or run.get("own_all")
                findings.append(dict(kind="l1" if owned else "l1-other", prog=programs[off + d.get("prog", 0)],
                                     seed=d.get("seed", 0), detail=dict(record=rj["record"], line=rj["line"])))
        for module, cfg in run.get("rawmon", []):
            if not rawf or not os.path.exists(rawf):
                continue
            v = vlib.validate_trace(module, cfg, rawf, wd, timeout=900, splitter=vlib.split_raw)
            stats["l0_states"] += v["distinct"]
            stats["l0_trans"] += v["generated"]
            stats["raw_validated"] = stats.get("raw_validated", 0) + v["accepted"]
            for rj in v["rejected"]:
                d = done.get(rj["x"], {})
                findings.append(dict(kind="raw", prog=programs[off + d.get("prog", 0)], seed=d.get("seed", 0),
                                     detail=dict(monitor=module, record=rj["record"][:300], line=rj["line"])))
        if rawf and os.path.exists(rawf) and run.get("rawmon"):
            ordering_census(rawf, stats)
        if rawf and os.path.exists(rawf):
            os.remove(rawf)
        if not stats["samples"]:
            x, ls = good[len(good) // 2]
            stats["samples"].append(dict(kind="validated real history (program %d)" % done.get(x, {}).get("prog", -1),
                                         events=[json.loads(l) for l in ls[:14]]))


_ORD = re.compile(r'"k":"(a8_cas|a8_load|a8_store|ab_cas|ab_store|fence)".*?"a":(\d+),"b":(\d+)')
ORD_NAME = {0: "Relaxed", 1: "Release", 2: "Acquire", 3: "AcqRel", 4: "SeqCst"}


def ordering_census(rawf, stats):
    """Binding of the ordering constants of SignalHB.tla / SpinMutex.tla to the code: every atomic operation on a Signal's
    state and on the channel lock must carry exactly the ordering those specifications were checked with.  A deviation is a
    DRIFT (the happens-before monitor decides whether it is a violation)."""
    cen = stats.setdefault("ordering_census", {})
    for l in open(rawf, errors="replace"):
        m = _ORD.search(l)
        if not m:
            continue
        k, a, b = m.group(1), int(m.group(2)), int(m.group(3))
        if k == "a8_cas":
            key = "state.compare_exchange(%s, %s)" % (ORD_NAME.get(b // 256, b // 256), ORD_NAME.get(b % 256, b % 256))
        elif k == "a8_load":
            key = "state.load(%s)" % ORD_NAME.get(a, a)
        elif k == "a8_store":
            key = "state.store(%s, %s)" % ("LOCKED" if a == 2 else "final", ORD_NAME.get(b, b))
        elif k == "ab_cas":
            key = "lock.compare_exchange(%s, %s)" % (ORD_NAME.get(b // 256, b // 256), ORD_NAME.get(b % 256, b % 256))
        elif k == "ab_store":
            key = "lock.store(%s)" % ORD_NAME.get(b, b)
        else:
            key = "fence(%s)" % ORD_NAME.get(a, a)
        cen[key] = cen.get(key, 0) + 1
    for key in cen:
        if key not in ORD_EXPECTED and key not in stats.setdefault("ordering_drift", []):
            stats["ordering_drift"].append(key)
            log("DRIFT: the code uses %s, which is not among the orderings SignalHB.tla / SpinMutex.tla were checked with" % key)


# what the specifications assume (SignalHB.tla constants all TRUE; SpinMutex.tla RelOrd = release, lock CAS acquire)
ORD_EXPECTED = {
    "state.compare_exchange(Release, Acquire)", "state.load(Relaxed)", "state.load(Acquire)", "state.store(final, Release)",
    "state.store(LOCKED, Relaxed)", "fence(Acquire)", "lock.compare_exchange(Acquire, Relaxed)", "lock.store(Release)",
}

STUCK_OWNERS = {"C06"}


BLOCKING_OPS = {"send", "recv", "iter_next", "await"}


def never_blocks(b):
    """calls that return at once in the reference model whatever the channel state: everything except the blocking calls and
    timed calls with a positive duration"""
    if b["op"] in BLOCKING_OPS:
        return False
    if b["op"] in ("send_timeout", "send_option_timeout", "recv_timeout") and b.get("d", 0) > 0:
        return False
    return True


def epilogue_findings(ls, prog):
    """Calls that only the harness' epilogue close released although the reference model says they return by themselves:
    (a) a timed call whose deadline had passed, (b) in a single-threaded program, any call that never blocks."""
    out = []
    np_ = len(prog.get("procs", []))
    open_t, cur = {}, None
    for l in ls:
        try:
            e = json.loads(l) if l.startswith('{"e":"B"') or l.startswith('{"e":"E"') else None
        except ValueError:
            continue            # a line damaged by a crashing harness process
        if l.startswith('{"e":"B"'):
            if e["p"] < np_:
                if e["op"] in ("send_timeout", "send_option_timeout", "recv_timeout") and e.get("d", 0) > 0:
                    open_t[e["p"]] = e
                if e["p"] == 0:
                    cur = e
            elif e["p"] == np_ and e["op"] == "close":
                late = [b for b in open_t.values() if e["t"] >= b["t"] + b["d"]]
                if late:
                    out.append(dict(stuck_ops=[dict(op=late[0]["op"], pend="deadline passed, released only by the epilogue close")],
                                    what="a timed call did not return after its deadline"))
                elif np_ == 1 and cur is not None and never_blocks(cur):
                    out.append(dict(stuck_ops=[dict(op=cur["op"], pend="released only by the epilogue close")],
                                    what="a call of a single-threaded program blocked"))
                break
        elif l.startswith('{"e":"E"'):
            if e["p"] in open_t and open_t[e["p"]]["o"] == e["o"]:
                del open_t[e["p"]]
            if cur is not None and e["o"] == cur["o"]:
                cur = None
    # scenario-level expectation: the timed calls of the listed processes expire undisturbed and must report Timeout
    exp = prog.get("expect_timeout")
    if exp:
        cur_t = {}
        for l in ls:
            try:
                e = json.loads(l) if l.startswith('{"e":"B"') or l.startswith('{"e":"E"') else None
            except ValueError:
                continue
            if e is None:
                continue
            if e["e"] == "B" and e["p"] in exp and e["op"] in ("send_timeout", "send_option_timeout", "recv_timeout"):
                cur_t[e["p"]] = e
            elif e["e"] == "E" and e["p"] in cur_t and cur_t[e["p"]]["o"] == e["o"]:
                if e["r"] != "Timeout":
                    out.append(dict(stuck_ops=[dict(op=cur_t[e["p"]]["op"], pend="returned %s" % e["r"])],
                                    what="a timed call whose deadline expired undisturbed did not report Timeout"))
                del cur_t[e["p"]]
    return out


def owns_finding(prop, f):
    k = f["kind"]
    if k in ("l0", "l1", "raw"):
        return True
    if k == "stuck":
        if prop in ("C06", "C03", "C18"):
            return True
        ops = {o.get("op") for o in f["detail"].get("stuck_ops", [])}
        pend = {o.get("pend") for o in f["detail"].get("stuck_ops", [])}
        if prop == "C16" and ("wait_waker" in pend):
            return True
        if prop == "C13" and ops & {"send_timeout", "send_option_timeout", "recv_timeout"}:
            return True
        if prop == "C14" and ops & L1_ATTR["C14"]:
            return True
        if prop == "C15" and "drop_fut" in ops:
            return True
        if prop == "C10" and "close" in ops:
            return True
        if prop == "C17" and ops & {"lock", "try_lock", "unlock"}:
            return True
        return False
    if k == "crash":
        # the harness process died (signal) inside safe API calls: memory safety (C07), integrity (C04), and the properties that
        # promise that an action is *safe* / *harmless* at any point (dropping futures: C15; spurious polls: C16)
        return prop in ("C07", "C04", "C15", "C16")
    return False


def run_check(prop, tier, seed, build=True):
    t0 = time.time()
    if prop not in PLANS:
        raise vlib.ToolError("no plan for " + prop)
    plan = PLANS[prop]
    wd = vlib.workdir(prop)
    if build:
        bt = vlib.build_harness()
        log("harness built in %.1fs" % bt)
    stats = dict(executions=0, events=0, stuck=0, budget=0, crashes=0, l0_states=0, l0_trans=0, l0_validated=0,
                 l1_states=0, l1_trans=0, l1_validated=0, mc_states=0, mc_trans=0, samples=[], mc=[],
                 l2_states=0, l2_trans=0, l2_validated=0, l2_events=0, drift=[])
    findings = []
    for mc in plan.get("mc", []):
        run_mc(mc, tier, wd, stats)
    stage_errors = []

    def stage(name, fn):
        # a stage that breaks (e.g. on output corrupted by the code under test) must not hide what was already found
        try:
            fn()
        except vlib.ToolError as e:
            stage_errors.append("%s: %s" % (name, str(e)[:400]))
            log("STAGE-ERROR %s: %s" % (name, str(e)[:400]))
        except Exception as e:  # noqa
            stage_errors.append("%s: %r" % (name, e))
            log("STAGE-ERROR %s: %r" % (name, e))
    for k, run in enumerate(plan["runs"]):
        stage("run %d" % k, lambda: run_one_config(prop, run, tier, seed, wd, "r%d" % k, stats, findings))
        log("run %d (%s): executions=%d validated l0=%d l1=%d findings=%d" % (
            k, run["profile"], stats["executions"], stats["l0_validated"], stats["l1_validated"], len(findings)))
    if plan.get("l2", True):
        stage("l2", lambda: run_l2_stage(prop, tier, seed, wd, stats, findings))
    if plan.get("spec_replay"):
        import replay
        stage("spec-replay", lambda: replay.run_stage(wd, tier, seed, stats, findings))
    if plan.get("spec_l1l0"):
        import l1l0
        stage("l1-l0", lambda: l1l0.run_stage(wd, tier, seed, stats, findings))
    if plan.get("tlaps"):
        stage("tlaps", lambda: run_tlaps(plan["tlaps"], wd, stats))
    if plan.get("spec_l2l1"):
        import l2l1
        stage("l2-l1", lambda: l2l1.run_stage(wd, tier, seed, stats, findings))
    known = load_known()
    rc = 0
    nviol = 0
    notes = []
    for k, f in enumerate(findings):
        if not owns_finding(prop, f):
            notes.append(f)
            log("NOTE: %s finding not attributed to %s (seed %s): %s" % (f["kind"], prop, f["seed"], json.dumps(f["detail"])[:300]))
            continue
        km = known_match(prop, f["kind"], f["detail"], known)
        if km:
            log("KNOWN-FINDING: property=%s %s" % (prop, km.get("what", "")))
            continue
        path = write_replay(prop, f["kind"], f["prog"], f["seed"], f["detail"], wd, k)
        log("VIOLATION property=%s replay=%s" % (prop, path))
        log("  kind=%s detail=%s" % (f["kind"], json.dumps(f["detail"])[:400]))
        nviol += 1
        rc = 1
    wall = time.time() - t0
    cov = dict(
        states=stats["mc_states"] + stats["l0_states"] + stats["l1_states"] + stats["l2_states"],
        transitions=stats["mc_trans"] + stats["l0_trans"] + stats["l1_trans"] + stats["l2_trans"],
        traces_validated_against_impl=stats["l0_validated"] + stats["l1_validated"] + stats["l2_validated"] + stats.get("raw_validated", 0),
        hook_traces_validated_by_monitor=stats.get("raw_validated", 0),
        hook_traces_validated_l2=stats["l2_validated"], hook_events_validated_l2=stats["l2_events"],
        drift=stats["drift"],
        atomic_orderings_observed=stats.get("ordering_census", {}), atomic_orderings_not_in_spec=stats.get("ordering_drift", []),
        spec_behaviours_replayed=stats.get("spec_behaviours_replayed", 0),
        spec_behaviours_same_results=stats.get("spec_behaviours_same_results", 0),
        spec_behaviours_followed_exactly=stats.get("spec_behaviours_followed_exactly", 0),
        ideal_channel_histories_accepted_by_l0=stats.get("spec_l1_histories_l0", 0),
        ideal_channel_histories_accepted_by_l1_validator=stats.get("spec_l1_histories_l1", 0),
        l2_spec_histories_accepted_by_l0=stats.get("spec_l2_histories_l0", 0),
        l2_spec_histories_linearizable_to_l1=stats.get("spec_l2_histories_l1", 0),
        samples=(stats["samples"] or [dict(note="no execution recorded")]) + ([stats["spec_sample"]] if stats.get("spec_sample") else []),
        model_checking=stats["mc"],
        model_states=stats["mc_states"], model_transitions=stats["mc_trans"],
        executions=stats["executions"], history_events=stats["events"],
        histories_validated_l0=stats["l0_validated"], histories_validated_l1=stats["l1_validated"],
        trace_validation_states=stats["l0_states"] + stats["l1_states"],
        stuck_executions=stats["stuck"], over_budget_executions=stats["budget"], crashed_executions=stats["crashes"],
        unattributed_findings=len(notes),
        checker_cmd="./check %s --tier %s" % (prop, tier),
    )
    vlib.write_evidence(prop, tier, seed, cov, wall, nviol, ASSUME_COMMON + plan.get("assume", []))
    log("%s %s: executions=%d states=%d violations=%d wall=%.1fs" % (prop, tier, stats["executions"], cov["states"], nviol, wall))
    if rc == 0 and stage_errors:
        raise vlib.ToolError("stage errors without a verdict: " + "; ".join(stage_errors))
    return rc


def run_l2_stage(prop, tier, seed, wd, stats, findings):
    """Impl -> spec at hook granularity: real executions must be behaviours of Kanal.tla (DRIFT if not)."""
    ti = Q if tier == "quick" else T
    n, ex = (L2Q, L2T)[ti]
    for cap in (0, 1, 2, None):
        rng = random.Random("%d/%s/l2/%s" % (seed, prop, cap))
        programs = [gen.gen_program(rng, "l2", cap=cap) for _ in range(n)]
        tag = "l2_%s" % ("u" if cap is None else cap)
        pf = os.path.join(wd, tag + ".programs.ndjson")
        with open(pf, "w") as f:
            for p in programs:
                f.write(json.dumps(p) + "\n")
        r = vlib.run_harness(pf, wd, tag, execs=ex, seed=seed, raw=True)
        if r["rc"] != 0:
            begun, done = vlib.load_meta(r["meta"])
            crashed = [x for x in begun if x not in done]
            b = begun[max(crashed)] if crashed else dict(prog=0, seed=0)
            findings.append(dict(kind="crash", prog=programs[b["prog"]], seed=b["seed"],
                                 detail=dict(rc=r["rc"], what="harness process died during the L2 conformance stage")))
            stats["crashes"] += 1
            continue
        begun, done = vlib.load_meta(r["meta"])
        v = vlib.validate_trace("KanalTrace", "KanalTrace.cfg", r["raw"], wd, timeout=900, max_findings=2, splitter=vlib.split_raw)
        stats["l2_states"] += v["distinct"]
        stats["l2_trans"] += v["generated"]
        stats["l2_validated"] += v["accepted"]
        stats["l2_events"] += sum(d.get("events", 0) for d in done.values())
        stats["executions"] += len(done)
        for rj in v["rejected"]:
            d = done.get(rj["x"], {})
            prog = programs[d.get("prog", 0)]
            stats["drift"].append(dict(cap=cap, seed=d.get("seed"), record=rj["record"][:300], program=prog))
            log("DRIFT: execution %s (cap %s) leaves the implementation-shaped specification at: %s" % (rj["x"], cap, rj["record"][:200]))
            # escalate: explore the deviating program under the verdict-level oracles
            p2 = dict(prog)
            run = R("drift", (1, 1), (60, 300), "ALL", True)
            run_one_config(prop, run, tier, seed + 17, wd, "esc%d" % len(stats["drift"]), stats, findings, programs=[p2])
        try:
            os.remove(r["raw"])
        except OSError:
            pass


def run_tlaps(module, wd, stats):
    """machine-checked proof (TLAPS) of an unbounded invariant; every obligation must be proved"""
    cache = os.path.join(wd, "tlacache")
    t = time.time()
    rc, out = vlib.sh(["timeout", "900", "tlapm", "--threads", "8", "--cleanfp", "--cache-dir", cache, module + ".tla"], cwd=vlib.SPEC)
    m = re.search(r"All (\d+) obligations? proved", out)
    if rc != 0 or not m:
        raise vlib.ToolError("TLAPS proof %s not accepted:\n%s" % (module, out[-2000:]))
    stats["mc"].append(dict(module=module, cfg="tlapm", proof_obligations_proved=int(m.group(1)), wall_s=round(time.time() - t, 1)))
    log("TLAPS %s: all %s obligations proved, %.1fs" % (module, m.group(1), time.time() - t))
    import shutil
    shutil.rmtree(cache, ignore_errors=True)


def run_mc(mc, tier, wd, stats):
    ti = Q if tier == "quick" else T
    module, cfg = mc["module"], mc["cfg"][ti]
    if cfg is None:
        return
    r = vlib.tlc(module, cfg, wd, workers=mc.get("workers", (8, 16))[ti], timeout=mc.get("timeout", (240, 3000))[ti],
                 heap=mc.get("heap", ("8g", "40g"))[ti], extra=mc.get("extra"))
    if r["timeout"] and mc.get("bounded") and not r["violated"] and r["distinct"] > 0:
        # a time-bounded breadth-first exploration of a configuration too large to finish: no violation in the part explored
        stats["mc_states"] += r["distinct"]
        stats["mc_trans"] += r["generated"]
        stats["mc"].append(dict(module=module, cfg=cfg, distinct=r["distinct"], generated=r["generated"], wall_s=round(r["wall"], 1), complete=False))
        log("MC %s %s: time-bounded, %d distinct states explored (incomplete), %.1fs" % (module, cfg, r["distinct"], r["wall"]))
        return
    if r["timeout"]:
        raise vlib.ToolError("model checking timed out: %s %s" % (module, cfg))
    if not r["ok"]:
        raise vlib.ToolError("specification check failed (%s %s):\n%s" % (module, cfg, r["out"][-3000:]))
    stats["mc_states"] += r["distinct"]
    stats["mc_trans"] += r["generated"]
    stats["mc"].append(dict(module=module, cfg=cfg, distinct=r["distinct"], generated=r["generated"], wall_s=round(r["wall"], 1)))
    log("MC %s %s: %d distinct states, %d generated, %.1fs" % (module, cfg, r["distinct"], r["generated"], r["wall"]))


def replay(prop, path):
    """Re-run one recorded finding (program + scheduler seed) on the current tree and re-apply its oracle."""
    rp = json.load(open(path))
    wd = vlib.workdir("replay_" + prop)
    vlib.build_harness()
    prog = rp["program"]
    pf = os.path.join(wd, "p.ndjson")
    with open(pf, "w") as f:
        f.write(json.dumps(prog) + "\n")
    r = vlib.run_harness(pf, wd, "rp", execs=1, seed=1, raw=True)
    if r["rc"] != 0:
        log("VIOLATION property=%s replay=%s" % (prop, path))
        log("  harness process died again (rc=%d)" % r["rc"])
        return 1
    bad = False
    z = [json.loads(l) for l in open(r["hist"], errors="replace") if l.startswith('{"e":"Z"')]
    if z and z[-1].get("stuck"):
        bad = True
        log("  execution is stuck again:", json.dumps(z[-1]))
    kind = rp.get("kind")
    det = rp.get("detail", {})
    if kind == "stuck" and det.get("what"):
        for det2 in epilogue_findings(list(open(r["hist"], errors="replace")), prog):
            bad = True
            log("  again: %s (%s)" % (det2["what"], det2["stuck_ops"][0]["op"]))
    if kind == "l0" and det.get("monitor"):
        v = vlib.validate_trace("KanalHistory", "KanalHistory_%s.cfg" % det["monitor"], r["hist"], wd)
        if v["rejected"]:
            bad = True
            log("  L0 monitor %s rejects at: %s" % (det["monitor"], v["rejected"][0]["record"]))
    if kind in ("l1", "l1-other"):
        v = vlib.validate_trace("KanalAtomicTrace", "KanalAtomicTrace.cfg", r["hist"], wd)
        if v["rejected"]:
            bad = True
            log("  L1 rejects at: %s" % v["rejected"][0]["record"])
    if kind == "raw" and det.get("monitor"):
        v = vlib.validate_trace(det["monitor"], det["monitor"] + ".cfg", r["raw"], wd, splitter=vlib.split_raw)
        if v["rejected"]:
            bad = True
            log("  %s rejects at: %s" % (det["monitor"], v["rejected"][0]["record"][:300]))
    if bad:
        log("VIOLATION property=%s replay=%s" % (prop, path))
        return 1
    log("replay does not reproduce a violation on this tree")
    return 0
