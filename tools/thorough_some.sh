#!/bin/bash
# runs the thorough tier of the given properties in a vp-run snapshot (evidence of the snapshot is discarded); usage: thorough_some.sh Cxx...
cd "$(dirname "$0")/.."
if [ -n "$VP_RUN_REPO" ]; then sed -i "s#path = \"/repo\"#path = \"$VP_RUN_REPO\"#" harness/Cargo.toml; fi
first=1
for p in "$@"; do
  s=$(date +%s)
  if [ $first = 1 ]; then opt=""; first=0; else opt="--no-build"; fi
  ./check $p --tier thorough $opt > work_thorough_$p.log 2>&1; rc=$?
  echo "$p rc=$rc $(( $(date +%s) - s ))s $(grep -c DRIFT work_thorough_$p.log) drift $(grep -c VIOLATION work_thorough_$p.log) viol $(grep -c NOTE work_thorough_$p.log) notes; $(tail -1 work_thorough_$p.log | cut -c1-150)"
done
