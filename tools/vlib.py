"""Shared machinery of the /verif/check driver: building the harness, running TLC
(model checking and trace validation), isolating rejected executions, evidence."""
import json, os, re, shutil, subprocess, sys, time

VERIF = os.path.dirname(os.path.dirname(os.path.abspath(__file__)))
SPEC = os.path.join(VERIF, "spec")
HARNESS = os.path.join(VERIF, "harness")
KH = os.path.join(HARNESS, "target", "release", "kh")
WORK = os.path.join(VERIF, "work")
TLC_JAR = "/opt/veriftools/tla/tla2tools.jar"


class ToolError(Exception):
    pass


def log(*a):
    print(*a, flush=True)


def sh(cmd, cwd=None, env=None, timeout=None, check=False):
    e = dict(os.environ)
    if env:
        e.update(env)
    p = subprocess.run(cmd, cwd=cwd, env=e, stdout=subprocess.PIPE, stderr=subprocess.STDOUT, text=True,
                       timeout=timeout, shell=isinstance(cmd, str))
    if check and p.returncode != 0:
        raise ToolError("command failed (%d): %s\n%s" % (p.returncode, cmd, p.stdout[-3000:]))
    return p.returncode, p.stdout


def build_harness():
    """(Re)build the harness against /repo's current working tree with the hooks enabled."""
    t = time.time()
    rc, out = sh("cargo build --release 2>&1", cwd=HARNESS, timeout=900)
    if rc != 0:
        raise ToolError("harness build failed:\n" + out[-4000:])
    return time.time() - t


def workdir(name):
    d = os.path.join(WORK, name)
    shutil.rmtree(d, ignore_errors=True)
    os.makedirs(d, exist_ok=True)
    return d


_PROGRESS = re.compile(r"Progress\(\d+\) at [^:]+:[^:]+:[^:]+: ([\d,]+) states generated.*?\), ([\d,]+) distinct states found")
_STATES = re.compile(r"(\d+) states generated, (\d+) distinct states found, (\d+) states left on queue")


def tlc(module, cfg, wd, workers=8, timeout=600, env=None, dfs=False, extra=None, heap="6g"):
    """Run TLC on spec/<module>.tla with spec/<cfg>; returns dict(rc, out, generated, distinct, ok)."""
    meta = os.path.join(wd, "tlc_" + os.path.basename(cfg).replace(".cfg", ""))
    shutil.rmtree(meta, ignore_errors=True)
    jtmp = os.path.join(wd, "jtmp")
    os.makedirs(jtmp, exist_ok=True)
    jopts = "-Xss1g -Xmx%s -XX:+UseParallelGC -Djava.io.tmpdir=%s" % (heap, jtmp)
    if dfs:
        jopts += " -Dtlc2.tool.queue.IStateQueue=StateDeque"
    e = {"JAVA_TOOL_OPTIONS": jopts}
    if env:
        e.update(env)
    cmd = ["timeout", str(timeout), "java", "-cp", TLC_JAR + ":/opt/veriftools/tla/CommunityModules-deps.jar",
           "tlc2.TLC"]
    cmd = ["timeout", str(timeout), "tlc", "-workers", str(workers), "-metadir", meta, "-cleanup",
           "-noGenerateSpecTE", "-config", cfg] + (extra or []) + [module + ".tla"]
    t = time.time()
    rc, out = sh(cmd, cwd=SPEC, env=e)
    shutil.rmtree(meta, ignore_errors=True)
    shutil.rmtree(jtmp, ignore_errors=True)
    m = None
    for m in _STATES.finditer(out):
        pass
    res = dict(rc=rc, out=out, wall=time.time() - t, generated=int(m.group(1)) if m else 0,
               distinct=int(m.group(2)) if m else 0)
    if m is None:
        # interrupted run: take the counts of the last progress line
        for m in _PROGRESS.finditer(out):
            pass
        if m:
            res["generated"] = int(m.group(1).replace(",", ""))
            res["distinct"] = int(m.group(2).replace(",", ""))
    res["violated"] = bool(re.search(r"is violated|Error: |Deadlock reached", out))
    res["timeout"] = rc == 124
    res["ok"] = rc == 0 and "No error has been found" in out
    return res


def run_harness(programs_file, wd, tag, execs=1, seed=1, raw=False, timeout=900):
    hist = os.path.join(wd, tag + ".hist.ndjson")
    meta = os.path.join(wd, tag + ".meta.ndjson")
    cmd = [KH, "run", "--programs", programs_file, "--execs", str(execs), "--seed", str(seed), "--hist", hist,
           "--meta", meta]
    rawf = None
    if raw:
        rawf = os.path.join(wd, tag + ".raw.ndjson")
        cmd += ["--raw", rawf]
    rc, out = sh(cmd, timeout=timeout)
    return dict(rc=rc, out=out, hist=hist, meta=meta, raw=rawf)


def load_meta(path):
    """meta lines: begin markers and per-execution summaries"""
    begun, done = {}, {}
    for l in open(path, errors="replace"):
        l = l.strip()
        if not l:
            continue
        try:
            d = json.loads(l)
        except Exception:
            continue
        if d.get("begin"):
            begun[d["x"]] = d
        else:
            done[d["x"]] = d
    return begun, done


def split_hist(path):
    """-> list of (x, [lines]) per execution"""
    res, cur, x = [], None, None
    for l in open(path, errors="replace"):
        if l.startswith('{"e":"X"'):
            if cur is not None:
                res.append((x, cur))
            x = json.loads(l)["x"]
            cur = [l]
        elif cur is not None:
            cur.append(l)
    if cur is not None:
        res.append((x, cur))
    return res


def split_raw(path):
    """-> list of (x, [lines]) per execution of a raw (hook-level) trace file"""
    res, cur, x = [], None, None
    for l in open(path, errors="replace"):
        if '"k":"reset"' in l[:40]:
            if cur is not None:
                res.append((x, cur))
            x = json.loads(l)["x"]
            cur = [l]
        elif cur is not None:
            cur.append(l)
    if cur is not None:
        res.append((x, cur))
    return res


def validate_trace(module, cfg, trace_file, wd, timeout=600, max_findings=3, env=None, splitter=None):
    """Validate a concatenated trace file; on rejection isolate the offending execution(s).
    Returns dict(accepted, rejected=[(x, line_no, record_text)], generated, distinct, runs)."""
    rejected = []
    execs = (splitter or split_hist)(trace_file)
    total_gen = total_dist = 0
    runs = 0
    cur_file = trace_file
    n_exec = len(execs)
    while True:
        e = {"TRACE": cur_file}
        if env:
            e.update(env)
        r = tlc(module, cfg, wd, workers=1, timeout=timeout, env=e, dfs=True, heap="4g")
        runs += 1
        total_gen += r["generated"]
        total_dist += r["distinct"]
        if r["timeout"]:
            raise ToolError("trace validation timed out: %s %s" % (module, cur_file))
        if r["ok"]:
            break
        m = re.search(r'"REJECTED-AT",\s*(\d+)', r["out"])
        if not m:
            raise ToolError("trace validation failed without a verdict:\n" + r["out"][-3000:])
        line_no = int(m.group(1))
        # find the execution containing that line of cur_file
        n = 0
        hit = None
        for k, (x, lines) in enumerate(execs):
            if n < line_no <= n + len(lines):
                hit = k
                break
            n += len(lines)
        if hit is None:
            raise ToolError("cannot locate rejected line %d" % line_no)
        x, lines = execs[hit]
        rejected.append(dict(x=x, line=line_no - n, record=lines[line_no - n - 1].strip(), lines=lines))
        execs = execs[:hit] + execs[hit + 1:]
        if len(rejected) >= max_findings or not execs:
            break
        cur_file = os.path.join(wd, "rest%d.ndjson" % runs)
        with open(cur_file, "w") as f:
            for _, ls in execs:
                f.writelines(ls)
    return dict(accepted=n_exec - len(rejected), rejected=rejected, generated=total_gen, distinct=total_dist,
                runs=runs, total=n_exec)


def write_evidence(pid, tier, seed, coverage, wall, violations, assumptions):
    os.makedirs(os.path.join(VERIF, "evidence"), exist_ok=True)
    ev = dict(property_id=pid, tier=tier, seed=seed, level="model_checking", coverage=coverage,
              assumptions=assumptions, wall_s=round(wall, 2), violations=violations)
    with open(os.path.join(VERIF, "evidence", pid + ".json"), "w") as f:
        json.dump(ev, f, indent=1)
    return ev
