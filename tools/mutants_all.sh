#!/bin/bash
# regression over every seeded change: apply it to the vp-run snapshot of the repository ($VP_RUN_REPO, never /repo), run the quick
# check(s) named in its meta.json ("breaks"), expect a VIOLATION, undo.  usage (through vp run --with-repo): tools/mutants_all.sh [id...]
cd "$(dirname "$0")/.."
[ -n "$VP_RUN_REPO" ] || { echo "needs a vp run --with-repo snapshot"; exit 2; }
sed -i "s#path = \"/repo\"#path = \"$VP_RUN_REPO\"#" harness/Cargo.toml
ids="$@"; [ -n "$ids" ] || ids=$(ls seeded)
miss=0
for id in $ids; do
  [ -f seeded/$id/patch.diff ] || continue
  prop=$(python3 -c "import json;print(json.load(open('seeded/$id/meta.json'))['breaks'])" 2>/dev/null || echo ${id:0:3})
  git -C $VP_RUN_REPO apply $PWD/seeded/$id/patch.diff || { echo "$id: patch does not apply"; continue; }
  s=$(date +%s)
  ./check $prop --tier quick > mut_$id.log 2>&1; rc=$?
  n=$(grep -c "^VIOLATION" mut_$id.log)
  echo "$id vs $prop: rc=$rc violations=$n $(( $(date +%s) - s ))s $( [ $n -gt 0 ] && echo CAUGHT || echo MISSED )"
  [ $n -gt 0 ] || miss=$((miss+1))
  git -C $VP_RUN_REPO checkout -- .
done
echo "missed=$miss"
