#!/bin/bash
# false-alarm sweep on the unchanged tree (run through `vp run --with-repo`): every quick check under several seeds
# usage: seedsweep.sh seed...
if [ -n "$VP_RUN_REPO" ]; then sed -i "s#path = \"/repo\"#path = \"$VP_RUN_REPO\"#" harness/Cargo.toml; fi
(cd harness && cargo build --release 2>&1 | tail -1)
for seed in "$@"; do
  for p in C01 C02 C03 C04 C05 C06 C07 C08 C09 C10 C11 C12 C13 C14 C15 C16 C17 C18 C19; do
    s=$(date +%s)
    VERIF_SEED=$seed ./check $p --tier quick --no-build > sweep_${seed}_$p.log 2>&1; rc=$?
    echo "seed=$seed $p rc=$rc $(( $(date +%s) - s ))s drift=$(grep -c DRIFT sweep_${seed}_$p.log) viol=$(grep -c VIOLATION sweep_${seed}_$p.log) notes=$(grep -c NOTE sweep_${seed}_$p.log)"
    if [ $rc != 0 ]; then grep -E "VIOLATION|TOOL|STAGE" -A2 sweep_${seed}_$p.log | head -12; fi
  done
done
