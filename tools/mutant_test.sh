#!/bin/bash
# usage: mutant_test.sh <seeded id> <prop> [<prop> ...] : apply seeded/<id>/patch.diff to /repo, run the checks, undo
id=$1; shift
cd /repo && git apply /verif/seeded/$id/patch.diff || exit 2
first=1
for p in "$@"; do
  if [ $first = 1 ]; then opt=""; first=0; else opt="--no-build"; fi
  (cd /verif && ./check $p --tier ${TIER:-quick} $opt 2>&1 | grep -E "VIOLATION|quick:|thorough:|TOOL" | cut -c1-160 | head -${LINES_MAX:-3} | sed "s/^/[$id vs $p] /")
done
cd /repo && git checkout -- . && cd /verif/harness && cargo build --release 2>&1 | grep -E "^error"
