"""L1 |= L0 on generated behaviours: TLC simulates the ideal channel (KanalAtomicSim.tla), each finished behaviour is
written as a harness-format history and validated by the L0 monitors (KanalHistory, Prop = ALL) and, as a
self-consistency check of the validator, by KanalAtomicTrace itself."""
import json, os, re, shutil
import vlib


def simulate(cfg, num, depth, wd, seed):
    meta = os.path.join(wd, "l1sim")
    cmd = ["timeout", "300", "tlc", "-workers", "1", "-simulate", "num=%d" % num, "-depth", str(depth), "-seed", str(seed),
           "-metadir", meta, "-noGenerateSpecTE", "-config", cfg, "KanalAtomicSim.tla"]
    rc, out = vlib.sh(cmd, cwd=vlib.SPEC, env={"JAVA_TOOL_OPTIONS": "-Xss512m -Xmx4g"})
    shutil.rmtree(meta, ignore_errors=True)
    if "is violated" in out:
        raise vlib.ToolError("L1 simulation violates an invariant:\n" + out[-2000:])
    hs = [json.loads(m.group(1).replace('\\"', '"')) for m in re.finditer(r'<<"HISTORY", "(.*)">>', out)]
    keep = []
    for k, h in enumerate(hs):
        nxt = hs[k + 1] if k + 1 < len(hs) else None
        if nxt is not None and len(nxt["hist"]) >= len(h["hist"]) and nxt["hist"][:len(h["hist"])] == h["hist"]:
            continue
        keep.append(h)
    return keep


def run_stage(wd, tier, seed, stats, findings):
    num, depth = (150, 200) if tier == "quick" else (9000, 300)
    hs = []
    for cfg in ("KanalAtomicSim.cfg", "KanalAtomicSim_b.cfg", "KanalAtomicSim_c.cfg"):
        hs += simulate(cfg, max(num // 3, 40), depth, wd, seed)
    if not hs:
        return
    path = os.path.join(wd, "l1sim.hist.ndjson")
    with open(path, "w") as f:
        for x, h in enumerate(hs, 1):
            f.write(json.dumps(dict(e="X", x=x, prog=x, t=0, cap=h["cap"], sc=h["sc"], rc=h["rc"], drops=True, tagged=True), separators=(",", ":")) + "\n")
            for e in h["hist"]:
                f.write(json.dumps(e, separators=(",", ":")) + "\n")
            f.write(json.dumps(dict(e="Q", p=9, t=0, ph=1), separators=(",", ":")) + "\n")
            for m in h["left"]:
                f.write(json.dumps(dict(e="D", p=9, t=0, m=m), separators=(",", ":")) + "\n")
            f.write(json.dumps(dict(e="Z", x=x, stuck=False, budget=False, stuck_threads=[], stuck_ops=[], t=0), separators=(",", ":")) + "\n")
    for module, cfg, key in (("KanalHistory", "KanalHistory_ALL.cfg", "l0"), ("KanalAtomicTrace", "KanalAtomicTrace.cfg", "l1")):
        v = vlib.validate_trace(module, cfg, path, wd)
        stats[key + "_states"] += v["distinct"]
        stats[key + "_trans"] += v["generated"]
        stats["spec_l1_histories_" + key] = stats.get("spec_l1_histories_" + key, 0) + v["accepted"]
        for rj in v["rejected"]:
            # a specification-level inconsistency: not a verdict about the code
            raise vlib.ToolError("a behaviour of the ideal channel is rejected by %s at %s" % (module, rj["record"][:300]))
