#!/bin/bash
# measures the thorough-tier TLC configurations (run through `vp run`); usage: thorough_mc.sh <workers> <timeout-s> cfg...
w=$1; t=$2; shift; shift
cd spec
for c in "$@"; do
  s=$(date +%s)
  timeout $t tlc -workers $w -metadir /root/.vp/tmp_md_$c -cleanup -noGenerateSpecTE -config MC_Kanal_$c.cfg MC_Kanal.tla 2>&1 | grep -E "is violated|states generated|rror" | tail -2
  echo "$c: $(( $(date +%s) - s )) s"
  rm -rf /root/.vp/tmp_md_$c
done
