"""L2 |= L1 and L2 |= L0 on generated behaviours: TLC simulates the implementation-shaped specification Kanal.tla
(KanalL2Hist.tla records what every step shows at the public API), each finished behaviour is written as an API history
in the harness format and validated by KanalAtomicTrace (linearizability to the ideal channel) and by the L0 monitors
(KanalHistory, Prop = ALL).  A rejection is a specification-level inconsistency, never a verdict about the code."""
import json, os, re, shutil
import vlib

KIND2OP = {"send": "send", "try_send": "try_send", "try_send_rt": "try_send_realtime", "send_to": "send_timeout",
           "send_opt": "send_option_timeout", "recv": "recv", "try_recv": "try_recv", "try_recv_rt": "try_recv_realtime",
           "recv_to": "recv_timeout", "drain": "drain_into", "close": "close", "drop": "drop", "clone": "clone", "len": "len"}
NEWFUT = {"asend": "asend_new", "arecv": "arecv_new", "stream": "stream_new"}
SENDK = {"send", "try_send", "try_send_rt", "send_to", "send_opt", "asend"}
RECVK = {"recv", "try_recv", "try_recv_rt", "recv_to", "arecv", "stream"}
RESMAP = {"RecvClosed": "ReceiveClosed"}


def simulate(cfg, num, depth, wd, seed):
    meta = os.path.join(wd, "l2sim")
    jtmp = os.path.join(wd, "jtmp_l2")
    os.makedirs(jtmp, exist_ok=True)
    cmd = ["timeout", "600", "tlc", "-workers", "1", "-simulate", "num=%d" % num, "-depth", str(depth), "-seed", str(seed),
           "-metadir", meta, "-noGenerateSpecTE", "-config", cfg, "MC_KanalL2Hist.tla"]
    rc, out = vlib.sh(cmd, cwd=vlib.SPEC, env={"JAVA_TOOL_OPTIONS": "-Xss512m -Xmx6g -Djava.io.tmpdir=" + jtmp})
    shutil.rmtree(meta, ignore_errors=True)
    shutil.rmtree(jtmp, ignore_errors=True)
    if "is violated" in out or "Error:" in out:
        raise vlib.ToolError("L2 simulation failed:\n" + out[-2000:])
    hs = [json.loads(m.group(1).replace('\\"', '"')) for m in re.finditer(r'<<"L2HIST", "(.*)">>', out)]
    keep = []
    for k, h in enumerate(hs):
        nxt = hs[k + 1] if k + 1 < len(hs) else None
        if nxt is not None and len(nxt["tr"]) >= len(h["tr"]) and nxt["tr"][:len(h["tr"])] == h["tr"]:
            continue
        keep.append(h)
    return keep


def convert(beh, x):
    """one L2 behaviour -> list of harness-format history records"""
    order = ["s1", "s2", "r1", "r2"]
    idx = {p: i for i, p in enumerate(order)}

    def mid(m):
        return idx[m[0]] * 100 + m[1] if m else 0
    out = [dict(e="X", x=x, prog=x, t=0, cap=beh["cap"], sc=beh["sc"], rc=beh["rc"], drops=True, tagged=True)]
    ocnt = {p: 0 for p in order}
    open_o = {p: None for p in order}     # the call in progress: (o, op)
    fut = {p: None for p in order}        # kind of the live future
    deferred = {p: [] for p in order}     # values a failed send_option_timeout leaves in the caller's Option

    def B(p, t, op, m=0, d=0, w=0):
        ocnt[p] += 1
        o = (idx[p] + 1) * 1000 + ocnt[p]
        open_o[p] = (o, op)
        out.append(dict(e="B", p=idx[p], t=t, o=o, op=op, sd=p[0], hc="", h=0, m=m, d=d, f=0, w=w, pre=0, spare=0, none=False, pv=[]))

    def E(p, t, r, v=0, vs=None, opt=False):
        o, _ = open_o[p]
        open_o[p] = None
        out.append(dict(e="E", p=idx[p], t=t, o=o, r=r, v=v, vs=vs or [], opt=opt))

    def D(p, t, m):
        out.append(dict(e="D", p=idx[p], t=t, m=m))
    for r in beh["tr"]:
        p, pc, pcn, t, k = r["p"], r["pc"], r["pcn"], r["now"], r["kind"]
        if pc == "idle":
            if k in NEWFUT:
                B(p, t, NEWFUT[k], m=mid(r["msg"]))
                E(p, t, "Ok")
                fut[p] = k
            elif k in KIND2OP:
                B(p, t, KIND2OP[k], m=mid(r["msg"]) if k in SENDK else 0, d=r["d"])
        elif pc == "f_idle":
            if r["ctxn"] == "drop":
                B(p, t, "drop_fut")
            else:
                B(p, t, "poll_next" if k == "stream" else "poll", w=idx[p] * 4 + r["w"][1])
        elif pc == "f_pend":
            E(p, t, "Pending")
        elif pc == "deliver" and pcn == "f_idle":
            E(p, t, "Ok", v=mid(r["val"]))
            D(p, t, mid(r["val"]))
        elif pc == "ret" and open_o[p] is not None:
            op = open_o[p][1]
            res = RESMAP.get(r["res"], r["res"])
            if op == "drop_fut":
                E(p, t, "Ok")
                fut[p] = None
            else:
                v, vs, opt = 0, [], False
                if res == "Ok" and k in RECVK:
                    v = mid(r["val"])
                if k == "drain" and res == "Ok":
                    vs = [mid(m) for m in r["vec"]]
                    v = len(vs)
                if k == "len":
                    v = r["cnt"]
                if k == "stream" and res != "Ok":
                    res = "None"
                if deferred[p]:
                    opt = True
                E(p, t, res, v, vs, opt)
                if res == "Ok" and k in RECVK:
                    D(p, t, v)
                for m in vs:
                    D(p, t, m)
                for m in deferred[p]:
                    D(p, t, m)
                deferred[p] = []
                if op in ("poll", "poll_next"):
                    # the model retires a finished future; the API needs the drop
                    B(p, t, "drop_fut")
                    E(p, t, "Ok")
                    fut[p] = None
        for m in r["dd"]:
            if k == "send_opt" and open_o[p] is not None and open_o[p][1] == "send_option_timeout":
                deferred[p].append(mid(m))
            else:
                D(p, t, mid(m))
        if r["wk"]:
            out.append(dict(e="W", p=idx[p], t=t, w=idx[r["wk"][0]] * 4 + r["wk"][1]))
    if not beh["blocked"]:
        # the channel is deallocated (and what is still buffered destroyed) only once every operation has returned
        for m in beh["left"]:
            out.append(dict(e="D", p=9, t=0, m=mid(m)))
    out.append(dict(e="Z", x=x, stuck=bool(beh["blocked"]), budget=False, stuck_threads=[], stuck_ops=[], t=0))
    return out


def run_stage(wd, tier, seed, stats, findings):
    num, depth = (60, 400) if tier == "quick" else (1500, 600)
    hs = []
    for cfg in ("KanalL2Hist_0.cfg", "KanalL2Hist_1.cfg", "KanalL2Hist_2.cfg"):
        hs += simulate(cfg, num, depth, wd, seed)
    if not hs:
        return
    path = os.path.join(wd, "l2sim.hist.ndjson")
    with open(path, "w") as f:
        for x, h in enumerate(hs, 1):
            for e in convert(h, x):
                f.write(json.dumps(e, separators=(",", ":")) + "\n")
    for module, cfg, key in (("KanalAtomicTrace", "KanalAtomicTrace.cfg", "l1"), ("KanalHistory", "KanalHistory_ALL.cfg", "l0")):
        v = vlib.validate_trace(module, cfg, path, wd)
        stats[key + "_states"] += v["distinct"]
        stats[key + "_trans"] += v["generated"]
        stats["spec_l2_histories_" + key] = stats.get("spec_l2_histories_" + key, 0) + v["accepted"]
        for rj in v["rejected"]:
            raise vlib.ToolError("a behaviour of the implementation-shaped specification is rejected by %s at record %d: %s"
                                 % (module, rj["line"], rj["record"][:300]))


if __name__ == "__main__":
    import sys, collections
    wd = vlib.workdir("l2l1")
    st = collections.defaultdict(int)
    run_stage(wd, sys.argv[1] if len(sys.argv) > 1 else "quick", int(sys.argv[2]) if len(sys.argv) > 2 else 1, st, [])
    print(dict(st))
