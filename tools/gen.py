#!/usr/bin/env python3
"""Program generator for the kanal harness.  A program is one JSON object:
   {"cap": n|null, "payload": name, "procs": [{"phase": k, "handles": [..], "ops": [..]}], "strat": {..}}
Profiles select the operation alphabet a property cares about."""
import json, random, sys

SEND_SYNC = ["send", "send_timeout", "send_option_timeout", "try_send", "try_send_option",
             "try_send_realtime", "try_send_option_realtime"]
RECV_SYNC = ["recv", "recv_timeout", "try_recv", "try_recv_realtime", "drain_into", "iter_next"]
OBS = ["len", "is_empty", "is_full", "capacity", "is_bounded", "sender_count", "receiver_count",
       "is_closed", "is_disconnected"]

PROFILES = {
    # weights: (op, weight)
    "general": dict(
        send=[("send", 6), ("try_send", 3), ("send_timeout", 2), ("send_option_timeout", 2),
              ("try_send_option", 1), ("try_send_realtime", 1), ("try_send_option_realtime", 1),
              ("asend", 4), ("close", 1), ("drop", 1), ("clone", 1), ("obs", 2), ("conv", 1)],
        recv=[("recv", 6), ("try_recv", 3), ("recv_timeout", 2), ("try_recv_realtime", 1),
              ("drain_into", 2), ("iter_next", 1), ("arecv", 4), ("stream", 2), ("close", 1), ("drop", 1),
              ("clone", 1), ("obs", 2), ("is_terminated", 1), ("conv", 1)],
        caps=[0, 0, 1, 1, 2, None], nprocs=[2, 3, 3, 4], nops=[1, 2, 3, 3, 4],
        payloads=["w1", "w1", "b3", "b3", "h4", "p5", "u8", "u16", "z0", "z64"]),
    "sync": dict(
        send=[("send", 6), ("try_send", 3), ("close", 1), ("drop", 1), ("obs", 1)],
        recv=[("recv", 6), ("try_recv", 3), ("drain_into", 1), ("close", 1), ("drop", 1), ("obs", 1)],
        caps=[0, 1, 1, 2, None], nprocs=[2, 3, 3], nops=[1, 2, 3], payloads=["w1", "b3"]),
    "timed": dict(
        send=[("send_timeout", 5), ("send_option_timeout", 5), ("send", 2), ("try_send", 1), ("close", 1), ("drop", 1)],
        recv=[("recv_timeout", 6), ("recv", 2), ("try_recv", 1), ("drain_into", 1), ("close", 1), ("drop", 1)],
        caps=[0, 0, 1, 2], nprocs=[2, 3], nops=[1, 2, 3], payloads=["w1", "b3", "h4", "p5"]),
    "async": dict(
        send=[("asend", 8), ("send", 2), ("try_send", 2), ("close", 1), ("drop", 1)],
        recv=[("arecv", 8), ("stream", 4), ("recv", 2), ("try_recv", 2), ("close", 1), ("drop", 1)],
        caps=[0, 0, 1, 2], nprocs=[2, 3], nops=[1, 2, 3], payloads=["w1", "b3", "h4", "p5"]),
    "handles": dict(
        send=[("clone", 4), ("drop", 4), ("conv", 3), ("obs", 5), ("close", 1), ("send", 1), ("try_send", 1)],
        recv=[("clone", 4), ("drop", 4), ("conv", 3), ("obs", 5), ("close", 1), ("recv", 1), ("try_recv", 1)],
        caps=[0, 1, None], nprocs=[2, 3], nops=[2, 3, 4, 5], payloads=["w1"]),
    "try": dict(
        send=[("try_send", 4), ("try_send_option", 3), ("try_send_realtime", 3), ("try_send_option_realtime", 3),
              ("send", 2), ("asend", 1), ("close", 1), ("obs", 1)],
        recv=[("try_recv", 4), ("try_recv_realtime", 4), ("drain_into", 4), ("recv", 2), ("arecv", 1), ("close", 1), ("obs", 1)],
        caps=[0, 1, 2, None], nprocs=[2, 3], nops=[1, 2, 3], payloads=["w1", "b3"]),
    "fifo": dict(
        send=[("send", 6), ("asend_await", 4), ("send_timeout_long", 2), ("try_send", 2)],
        recv=[("recv", 6), ("try_recv", 3), ("drain_into", 3), ("arecv_await", 3), ("stream_long", 2), ("recv_timeout", 1)],
        caps=[0, 1, 1, 2, 2, None], nprocs=[3, 3, 4], nops=[3, 3, 4], payloads=["w1", "b3", "h4"], late=0.25,
        sides=["s", "s", "r"]),
    "capacity": dict(
        send=[("send", 5), ("try_send", 4), ("try_send_option", 2), ("asend", 4), ("send_timeout", 2), ("obs_len", 3)],
        recv=[("recv", 4), ("try_recv", 3), ("drain_into", 2), ("arecv", 2), ("obs_len", 3)],
        caps=[0, 0, 1, 2, 3, None], nprocs=[2, 3, 3, 4], nops=[2, 3, 4], payloads=["w1", "b3"], late=0.4, late_side="r"),
    "close": dict(
        send=[("send", 4), ("try_send", 2), ("send_timeout", 2), ("send_option_timeout", 1), ("asend", 3), ("close", 3), ("obs", 2), ("clone", 1)],
        recv=[("recv", 4), ("try_recv", 2), ("recv_timeout", 2), ("drain_into", 1), ("arecv", 3), ("stream", 1), ("close", 3), ("obs", 2), ("is_terminated", 1), ("clone", 1)],
        caps=[0, 0, 1, 2, None], nprocs=[2, 3, 3, 4], nops=[2, 3, 4], payloads=["w1", "b3", "h4"], late=0.3),
    "disconnect": dict(
        send=[("send", 4), ("try_send", 2), ("send_timeout", 1), ("asend", 3), ("drop", 3), ("clone", 2), ("obs", 1)],
        recv=[("recv", 4), ("try_recv", 2), ("recv_timeout", 1), ("drain_into", 1), ("arecv", 3), ("stream", 1), ("drop", 3), ("clone", 2), ("obs", 1), ("is_terminated", 1)],
        caps=[0, 0, 1, 2, None], nprocs=[2, 3, 3, 4], nops=[2, 3, 4], payloads=["w1", "b3"], late=0.3),
    "drain": dict(
        send=[("send", 6), ("asend", 4), ("try_send", 2), ("send_timeout", 1), ("close", 1), ("drop", 1)],
        recv=[("drain_into", 8), ("recv", 1), ("try_recv", 1), ("close", 1), ("obs", 1)],
        caps=[0, 0, 1, 2, None], nprocs=[2, 3, 4], nops=[1, 2, 3], payloads=["w1", "b3", "z0"]),
}


def wchoice(rng, items):
    tot = sum(w for _, w in items)
    r = rng.uniform(0, tot)
    for x, w in items:
        r -= w
        if r <= 0:
            return x
    return items[-1][0]


def gen_program(rng, profile="general", payload=None, cap="rand"):
    pf = PROFILES[profile]
    n = rng.choice(pf["nprocs"])
    capv = rng.choice(pf["caps"]) if cap == "rand" else cap
    pl = payload or rng.choice(pf["payloads"])
    maxid = 190
    procs = []
    # at least one sender process and one receiver process
    sides = list(pf.get("sides", ["s", "r"]))[:n]
    sides += [rng.choice("sr") for _ in range(n - len(sides))]
    rng.shuffle(sides)
    for pi in range(n):
        side = sides[pi]
        fl = rng.choice(["s", "s", "a"])
        handles = [fl + side]
        if rng.random() < 0.15:
            handles.append(rng.choice("sa") + rng.choice("sr"))
        ops = []
        k = 0
        nf = 0
        nops = rng.choice(pf["nops"])
        live = list(range(len(handles)))
        hside = {i: h[1] for i, h in enumerate(handles)}
        nh = len(handles)
        for _ in range(nops):
            if not live:
                break
            h = rng.choice(live)
            sd = hside[h]
            o = wchoice(rng, pf["send"] if sd == "s" else pf["recv"])
            k += 1
            m = (pi * 20 + k) % maxid + 1
            d = rng.choice([0, 0, 1, 2, 5])
            w = rng.choice([1, 1, 2])
            if o in ("send", "try_send", "try_send_realtime"):
                ops.append({"op": o, "h": h, "m": m})
            elif o in ("send_timeout",):
                ops.append({"op": o, "h": h, "m": m, "d": d})
            elif o in ("send_option_timeout",):
                op = {"op": o, "h": h, "m": m, "d": d}
                if rng.random() < 0.03:
                    op["none"] = 1
                ops.append(op)
            elif o in ("try_send_option", "try_send_option_realtime"):
                op = {"op": o, "h": h, "m": m}
                if rng.random() < 0.03:
                    op["none"] = 1
                ops.append(op)
            elif o in ("recv", "try_recv", "try_recv_realtime", "iter_next", "is_terminated"):
                ops.append({"op": o, "h": h})
            elif o == "recv_timeout":
                ops.append({"op": o, "h": h, "d": d})
            elif o == "drain_into":
                ops.append({"op": o, "h": h, "pre": rng.choice([0, 0, 1, 2]), "spare": rng.choice([0, 0, 1, 4])})
            elif o == "send_timeout_long":
                ops.append({"op": "send_timeout", "h": h, "m": m, "d": 50})
            elif o == "obs_len":
                ops.append({"op": rng.choice(["len", "is_full", "is_empty", "len"]), "h": h})
            elif o in ("asend_await", "arecv_await"):
                f = nf
                nf += 1
                ops.append({"op": "asend_new" if o == "asend_await" else "arecv_new", "h": h, "f": f, "m": m})
                ops.append({"op": "await", "f": f, "w": 1})
            elif o == "stream_long":
                f = nf
                nf += 1
                ops.append({"op": "stream_new", "h": h, "f": f})
                for _ in range(rng.choice([2, 3, 4])):
                    ops.append({"op": "await", "f": f, "w": rng.choice([1, 1, 2])})
            elif o in ("asend", "arecv", "stream"):
                f = nf
                nf += 1
                newop = {"asend": "asend_new", "arecv": "arecv_new", "stream": "stream_new"}[o]
                ops.append({"op": newop, "h": h, "f": f, "m": m})
                script = rng.choice(["await", "await", "poll_await", "poll_poll_await", "poll_drop", "drop", "poll",
                                     "poll_poll", "await_poll"])
                if o == "stream":
                    script = rng.choice(["await", "await_await", "poll_await_await", "await_poll_await", "poll_drop",
                                         "await_await_await", "await_term"])
                for step in script.split("_"):
                    w2 = rng.choice([1, 1, 2, 3])
                    if step == "await":
                        ops.append({"op": "await", "f": f, "w": w2})
                    elif step == "poll":
                        ops.append({"op": "poll", "f": f, "w": w2})
                    elif step == "drop":
                        ops.append({"op": "drop_fut", "f": f})
                    elif step == "term":
                        ops.append({"op": "stream_is_terminated", "f": f})
            elif o == "close":
                ops.append({"op": "close", "h": h})
            elif o == "drop":
                ops.append({"op": "drop", "h": h})
                live.remove(h)
            elif o == "clone":
                ops.append({"op": rng.choice(["clone", "clone_sync", "clone_async"]), "h": h})
                hside[nh] = sd
                live.append(nh)
                nh += 1
            elif o == "conv":
                ops.append({"op": rng.choice(["to_sync", "to_async"]), "h": h})
            elif o == "obs":
                ops.append({"op": rng.choice(OBS), "h": h})
        phase = 0
        if rng.random() < pf.get("late", 0.1) and pf.get("late_side", side) == side:
            phase = 1
        procs.append({"phase": phase, "handles": handles, "ops": ops})
    return {"cap": capv, "payload": pl, "procs": procs}


def main():
    import argparse
    ap = argparse.ArgumentParser()
    ap.add_argument("--profile", default="general")
    ap.add_argument("--n", type=int, default=100)
    ap.add_argument("--seed", type=int, default=1)
    ap.add_argument("--payload", default=None)
    a = ap.parse_args()
    rng = random.Random(a.seed)
    for _ in range(a.n):
        print(json.dumps(gen_program(rng, a.profile, a.payload)))


if __name__ == "__main__":
    main()
