#!/usr/bin/env python3
"""Program generator for the kanal harness.  A program is one JSON object:
   {"cap": n|null, "payload": name, "procs": [{"phase": k, "handles": [..], "ops": [..]}], "strat": {..}}
Profiles select the operation alphabet a property cares about."""
import json, random, sys

SEND_SYNC = ["send", "send_timeout", "send_option_timeout", "try_send", "try_send_option",
             "try_send_realtime", "try_send_option_realtime"]
RECV_SYNC = ["recv", "recv_timeout", "try_recv", "try_recv_realtime", "drain_into", "iter_next"]
OBS = ["len", "is_empty", "is_full", "capacity", "is_bounded", "sender_count", "receiver_count",
       "is_closed", "is_disconnected"]

INTEG = [0]
PROFILES = {
    # weights: (op, weight)
    "general": dict(
        send=[("send", 6), ("try_send", 3), ("send_timeout", 2), ("send_option_timeout", 2),
              ("try_send_option", 1), ("try_send_realtime", 1), ("try_send_option_realtime", 1),
              ("asend", 4), ("close", 1), ("drop", 1), ("clone", 1), ("obs", 2), ("conv", 1)],
        recv=[("recv", 6), ("try_recv", 3), ("recv_timeout", 2), ("try_recv_realtime", 1),
              ("drain_into", 2), ("iter_next", 1), ("arecv", 4), ("stream", 2), ("close", 1), ("drop", 1),
              ("clone", 1), ("obs", 2), ("is_terminated", 1), ("conv", 1)],
        caps=[0, 0, 1, 1, 2, None], nprocs=[2, 3, 3, 4], nops=[1, 2, 3, 3, 4],
        payloads=["w1", "w1", "b3", "b3", "h4", "p5", "u8", "u16", "z0", "z64"]),
    "sync": dict(
        send=[("send", 6), ("try_send", 3), ("close", 1), ("drop", 1), ("obs", 1)],
        recv=[("recv", 6), ("try_recv", 3), ("drain_into", 1), ("close", 1), ("drop", 1), ("obs", 1)],
        caps=[0, 1, 1, 2, None], nprocs=[2, 3, 3], nops=[1, 2, 3], payloads=["w1", "b3", "u8", "z0"]),
    "timed": dict(
        send=[("send_timeout", 5), ("send_option_timeout", 5), ("send", 2), ("try_send", 1), ("close", 1), ("drop", 1)],
        recv=[("recv_timeout", 6), ("recv", 2), ("try_recv", 1), ("drain_into", 1), ("close", 1), ("drop", 1)],
        caps=[0, 0, 1, 2], nprocs=[2, 3], nops=[1, 2, 3], payloads=["w1", "b3", "h4", "p5", "z0", "u8"]),
    "async": dict(
        send=[("asend", 8), ("send", 2), ("try_send", 2), ("close", 1), ("drop", 1)],
        recv=[("arecv", 8), ("stream", 4), ("recv", 2), ("try_recv", 2), ("close", 1), ("drop", 1)],
        caps=[0, 0, 1, 2], nprocs=[2, 3], nops=[1, 2, 3], payloads=["w1", "b3", "h4", "p5", "u8", "z0"]),
    "handles": dict(
        send=[("clone", 4), ("drop", 4), ("conv", 3), ("obs", 5), ("close", 1), ("send", 1), ("try_send", 1)],
        recv=[("clone", 4), ("drop", 4), ("conv", 3), ("obs", 5), ("close", 1), ("recv", 1), ("try_recv", 1)],
        caps=[0, 1, None], nprocs=[2, 3], nops=[2, 3, 4, 5], payloads=["w1"]),
    "try": dict(
        send=[("try_send", 4), ("try_send_option", 3), ("try_send_realtime", 3), ("try_send_option_realtime", 3),
              ("send", 2), ("asend", 1), ("close", 1), ("obs", 1)],
        recv=[("try_recv", 4), ("try_recv_realtime", 4), ("drain_into", 4), ("recv", 2), ("arecv", 1), ("close", 1), ("obs", 1)],
        caps=[0, 1, 2, None], nprocs=[2, 3], nops=[1, 2, 3], payloads=["w1", "b3"]),
    "fifo": dict(
        send=[("send", 6), ("asend_await", 4), ("send_timeout_long", 2), ("try_send", 2)],
        recv=[("recv", 6), ("try_recv", 3), ("try_recv_realtime", 3), ("drain_into", 3), ("arecv_await", 3), ("stream_long", 2), ("recv_timeout", 2)],
        caps=[0, 1, 1, 2, 2, None], nprocs=[3, 3, 4], nops=[3, 3, 4], payloads=["w1", "b3", "h4"], late=0.25,
        sides=["s", "s", "r"]),
    "capacity": dict(
        send=[("send", 5), ("try_send", 4), ("try_send_option", 2), ("asend", 4), ("send_timeout", 2), ("obs_len", 3)],
        recv=[("recv", 4), ("try_recv", 3), ("drain_into", 2), ("arecv", 2), ("obs_len", 3)],
        caps=[0, 0, 1, 2, 3, None], nprocs=[2, 3, 3, 4], nops=[2, 3, 4], payloads=["w1", "b3", "z0", "z0", "u8", "z64"], late=0.4, late_side="r"),
    "close": dict(
        send=[("send", 4), ("try_send", 2), ("send_timeout", 2), ("send_option_timeout", 1), ("asend", 3), ("close", 3), ("obs", 2), ("clone", 1)],
        recv=[("recv", 4), ("try_recv", 2), ("recv_timeout", 2), ("drain_into", 1), ("arecv", 3), ("stream", 1), ("close", 3), ("obs", 2), ("is_terminated", 1), ("clone", 1)],
        caps=[0, 0, 1, 2, None], nprocs=[2, 3, 3, 4], nops=[2, 3, 4], payloads=["w1", "b3", "h4", "u8", "z0"], late=0.3),
    "disconnect": dict(
        send=[("send", 4), ("try_send", 2), ("try_send_realtime", 1), ("try_send_option", 1), ("send_timeout", 1), ("send_option_timeout", 1),
              ("asend", 3), ("drop", 3), ("clone", 2), ("obs", 1)],
        recv=[("recv", 4), ("try_recv", 2), ("try_recv_realtime", 2), ("recv_timeout", 2), ("drain_into", 2), ("iter_next", 1), ("arecv", 3),
              ("stream", 1), ("drop", 3), ("clone", 2), ("obs", 1), ("is_terminated", 1)],
        caps=[0, 0, 1, 2, None], nprocs=[2, 3, 3, 4], nops=[2, 3, 4], payloads=["w1", "b3", "u8", "z0"], late=0.3),
    "l2": dict(
        send=[("send", 6), ("try_send", 3), ("send_timeout", 2), ("send_option_timeout", 2), ("try_send_option", 1),
              ("try_send_realtime", 1), ("asend", 4), ("close", 1), ("drop", 1), ("clone", 1), ("obs", 1), ("conv", 1)],
        recv=[("recv", 6), ("try_recv", 3), ("recv_timeout", 2), ("try_recv_realtime", 1), ("drain_into", 2),
              ("iter_next", 1), ("arecv", 4), ("stream", 2), ("close", 1), ("drop", 1), ("clone", 1), ("obs", 1), ("conv", 1)],
        caps=[0, 1, 2, None], nprocs=[4], nops=[0, 1, 2, 3, 3], payloads=["w1", "b3", "h4", "p5", "u8", "u16"],
        sides=["s", "s", "r", "r"], l2=True, late=0.2),
    "mixed": dict(
        send=[("send", 5), ("try_send", 2), ("send_timeout", 1), ("asend", 5), ("close", 1), ("drop", 1), ("clone", 2), ("conv", 3), ("obs", 1)],
        recv=[("recv", 5), ("try_recv", 2), ("recv_timeout", 1), ("drain_into", 1), ("arecv", 5), ("stream", 2), ("close", 1), ("drop", 1),
              ("clone", 2), ("conv", 3), ("obs", 1)],
        caps=[0, 0, 1, 2, None], nprocs=[2, 3, 3, 4], nops=[2, 3, 4], payloads=["w1", "b3", "h4", "p5", "u8", "z0"], late=0.2),
    "fdrop": dict(
        send=[("asend_d", 8), ("send", 2), ("try_send", 2), ("close", 1), ("drop", 1)],
        recv=[("arecv_d", 8), ("stream_d", 3), ("recv", 2), ("try_recv", 2), ("drain_into", 1), ("close", 1), ("drop", 1)],
        caps=[0, 0, 1, 2], nprocs=[2, 3, 3], nops=[1, 2, 3], payloads=["w1", "b3", "h4", "p5", "z0", "u8", "u16"], late=0.2),
    "poll": dict(
        send=[("asend_p", 8), ("send", 2), ("try_send", 2), ("close", 1), ("drop", 1)],
        recv=[("arecv_p", 8), ("stream_p", 4), ("recv", 2), ("try_recv", 2), ("close", 1), ("drop", 1)],
        caps=[0, 0, 1, 2], nprocs=[2, 3, 3], nops=[1, 2, 3], payloads=["w1", "b3", "h4", "u16"], late=0.2),
    "drain": dict(
        send=[("send", 6), ("asend", 4), ("try_send", 2), ("send_timeout", 1), ("close", 1), ("drop", 1)],
        recv=[("drain_into", 8), ("recv", 1), ("try_recv", 1), ("close", 1), ("obs", 1)],
        caps=[0, 0, 1, 2, None], nprocs=[2, 3, 4], nops=[1, 2, 3], payloads=["w1", "b3", "z0"]),
}


def wchoice(rng, items):
    tot = sum(w for _, w in items)
    r = rng.uniform(0, tot)
    for x, w in items:
        r -= w
        if r <= 0:
            return x
    return items[-1][0]


def gen_program(rng, profile="general", payload=None, cap="rand"):
    if profile == "chain":
        return gen_chain(rng, payload, cap)
    if profile == "chain_s":
        return gen_chain(rng, payload, cap, side="s")
    if profile == "chain_drain":
        return gen_chain(rng, payload, cap, side="s", serve="drain")
    if profile == "chain_z":
        # zero-sized payloads (no identity: count-based oracles) on the ordered blocking scenarios, buffered channels only
        return gen_chain(rng, rng.choice(["z0", "z0", "z64"]), rng.choice([1, 1, 2]), side="s")
    if profile == "progress":
        return gen_progress(rng)
    if profile == "pair":
        return gen_pair(rng)
    if profile == "handlepair":
        return gen_handlepair(rng)
    if profile == "discrace":
        return gen_discrace(rng)
    if profile == "waiters_timed":
        return gen_waiters_timed(rng)
    if profile == "termrace":
        return gen_termrace(rng)
    if profile == "waiters":
        return gen_waiters(rng)
    if profile == "trystate":
        return gen_trystate(rng)
    if profile == "spincond":
        return gen_spincond(rng)
    if profile == "mutex":
        return gen_mutex(rng)
    if profile == "mutexfreeze":
        return gen_mutex(rng, True)
    if profile == "hbfreeze":
        # C07: freeze one process at its k-th hook (e.g. right after its final store) while the others, including
        # parked owners woken spuriously, run on alone
        p = gen_progress(rng) if rng.random() < 0.7 else gen_chain(rng, payload, cap)
        st = dict(p.get("strat", {}))
        st.update({"freeze": [rng.randrange(len(p["procs"])), rng.randrange(1, 70)], "p_spurious": 0.5, "max_spurious": 3})
        p["strat"] = st
        return p
    if profile == "tryfreeze":
        # a peer is frozen at its k-th hook (possibly inside a critical section) while non-blocking callers run alone
        p = gen_program(rng, "try", payload, cap)
        p["strat"] = {"freeze": [rng.randrange(len(p["procs"])), rng.randrange(1, 40)]}
        return p
    if profile.startswith("integrity_"):
        INTEG[0] += 1
        return gen_integrity(rng, INTEG[0], profile.split("_", 1)[1])
    pf = PROFILES[profile]
    n = rng.choice(pf["nprocs"])
    capv = rng.choice(pf["caps"]) if cap == "rand" else cap
    pl = payload or rng.choice(pf["payloads"])
    maxid = 190
    procs = []
    # at least one sender process and one receiver process
    sides = list(pf.get("sides", ["s", "r"]))[:n]
    sides += [rng.choice("sr") for _ in range(n - len(sides))]
    if not pf.get("l2"):
        rng.shuffle(sides)
    for pi in range(n):
        side = sides[pi]
        fl = rng.choice(["s", "s", "a"])
        handles = [fl + side]
        if rng.random() < 0.15 and not pf.get("l2"):
            handles.append(rng.choice("sa") + rng.choice("sr"))
        ops = []
        k = 0
        nf = 0
        nops = rng.choice(pf["nops"])
        live = list(range(len(handles)))
        hside = {i: h[1] for i, h in enumerate(handles)}
        nh = len(handles)
        for _ in range(nops):
            if not live:
                break
            h = rng.choice(live)
            sd = hside[h]
            o = wchoice(rng, pf["send"] if sd == "s" else pf["recv"])
            k += 1
            m = (pi * 20 + k) % maxid + 1
            d = rng.choice([0, 0, 1, 2, 5])
            w = rng.choice([1, 1, 2])
            if o in ("send", "try_send", "try_send_realtime"):
                ops.append({"op": o, "h": h, "m": m})
            elif o in ("send_timeout",):
                ops.append({"op": o, "h": h, "m": m, "d": d})
            elif o in ("send_option_timeout",):
                op = {"op": o, "h": h, "m": m, "d": d}
                if rng.random() < 0.03:
                    op["none"] = 1
                ops.append(op)
            elif o in ("try_send_option", "try_send_option_realtime"):
                op = {"op": o, "h": h, "m": m}
                if rng.random() < 0.03:
                    op["none"] = 1
                ops.append(op)
            elif o in ("recv", "try_recv", "try_recv_realtime", "iter_next", "is_terminated"):
                ops.append({"op": o, "h": h})
            elif o == "recv_timeout":
                ops.append({"op": o, "h": h, "d": d})
            elif o == "drain_into":
                ops.append({"op": o, "h": h, "pre": rng.choice([0, 0, 1, 2]), "spare": rng.choice([0, 0, 1, 4])})
            elif o == "send_timeout_long":
                ops.append({"op": "send_timeout", "h": h, "m": m, "d": 50})
            elif o == "obs_len":
                ops.append({"op": rng.choice(["len", "is_full", "is_empty", "len"]), "h": h})
            elif o in ("asend_await", "arecv_await"):
                f = nf
                nf += 1
                ops.append({"op": "asend_new" if o == "asend_await" else "arecv_new", "h": h, "f": f, "m": m})
                ops.append({"op": "await", "f": f, "w": 1})
            elif o == "stream_long":
                f = nf
                nf += 1
                ops.append({"op": "stream_new", "h": h, "f": f})
                for _ in range(rng.choice([2, 3, 4])):
                    ops.append({"op": "await", "f": f, "w": rng.choice([1, 1, 2])})
            elif o in ("asend_d", "arecv_d", "stream_d", "asend_p", "arecv_p", "stream_p"):
                f = nf
                nf += 1
                base, mode = o.split("_")
                ops.append({"op": {"asend": "asend_new", "arecv": "arecv_new", "stream": "stream_new"}[base], "h": h, "f": f, "m": m})
                if mode == "d":
                    script = rng.choice(["drop", "poll_drop", "poll_poll_drop", "poll_drop", "await_drop", "poll"])
                else:
                    script = rng.choice(["poll_poll_await", "poll_poll_poll_await", "poll_await_poll", "await_poll_poll",
                                         "poll_poll_poll", "poll_await"])
                    if base == "stream":
                        script = rng.choice(["poll_poll_await_await", "await_poll_await_poll", "await_await_await_poll", "poll_poll_await"])
                for step in script.split("_"):
                    w2 = rng.choice([1, 2, 3])
                    if step == "await":
                        ops.append({"op": "await", "f": f, "w": w2})
                    elif step == "poll":
                        ops.append({"op": "poll", "f": f, "w": w2})
                    else:
                        ops.append({"op": "drop_fut", "f": f})
            elif o in ("asend", "arecv", "stream"):
                f = nf
                nf += 1
                newop = {"asend": "asend_new", "arecv": "arecv_new", "stream": "stream_new"}[o]
                ops.append({"op": newop, "h": h, "f": f, "m": m})
                script = rng.choice(["await", "await", "poll_await", "poll_poll_await", "poll_drop", "drop", "poll",
                                     "poll_poll", "await_poll"])
                if o == "stream":
                    script = rng.choice(["await", "await_await", "poll_await_await", "await_poll_await", "poll_drop",
                                         "await_await_await", "await_term"])
                if pf.get("l2"):
                    # one live future per process: every script ends by completing or dropping it
                    if o == "stream":
                        script = rng.choice(["await_drop", "await_await_drop", "poll_await_await_drop", "poll_drop",
                                             "await_poll_await_drop", "drop"])
                    else:
                        script = rng.choice(["await", "await", "poll_await", "poll_poll_await", "poll_drop", "drop",
                                             "poll_poll_drop", "await_drop"])
                for step in script.split("_"):
                    w2 = rng.choice([1, 1, 2, 3])
                    if step == "await":
                        ops.append({"op": "await", "f": f, "w": w2})
                    elif step == "poll":
                        ops.append({"op": "poll", "f": f, "w": w2})
                    elif step == "drop":
                        ops.append({"op": "drop_fut", "f": f})
                    elif step == "term":
                        ops.append({"op": "stream_is_terminated", "f": f})
            elif o == "close":
                ops.append({"op": "close", "h": h})
            elif o == "drop":
                ops.append({"op": "drop", "h": h})
                live.remove(h)
            elif o == "clone":
                ops.append({"op": rng.choice(["clone", "clone_sync", "clone_async"]), "h": h})
                hside[nh] = sd
                live.append(nh)
                nh += 1
            elif o == "conv":
                ops.append({"op": rng.choice(["to_sync", "to_async"]), "h": h})
            elif o == "obs":
                ops.append({"op": rng.choice(OBS), "h": h})
        phase = 0
        if rng.random() < pf.get("late", 0.1) and pf.get("late_side", side) == side:
            phase = 1
        procs.append({"phase": phase, "handles": handles, "ops": ops})
    return {"cap": capv, "payload": pl, "procs": procs}


def gen_chain(rng, payload=None, cap="rand", side=None, serve=None):
    """Ordered blocking scenario: k waiters of one side register one per phase (barriers), some of them are
    cancelled from the middle of the waiting list (timed expiry once the clock starts ticking, dropped futures),
    then the other side arrives and serves the rest."""
    capv = rng.choice([0, 0, 1, 1, 2]) if cap == "rand" else cap
    pl = payload or rng.choice(["w1", "w1", "b3", "h4", "p5", "u16", "u8", "z0"])
    k = rng.choice([2, 3, 3, 4])
    side = side or rng.choice(["s", "s", "s", "r"])
    procs = []
    mid = [0]

    def nm():
        mid[0] += 1
        return mid[0]
    cancel_ph = k + 1
    serve_ph = k + 2
    if side == "s":
        # fill the buffer first so that every later send has to wait
        fill = [{"op": "try_send", "h": 0, "m": nm()} for _ in range(capv or 0)]
        procs.append({"phase": 0, "handles": [rng.choice(["ss", "as"])], "ops": fill})
        for j in range(1, k + 1):
            kind = rng.choice(["send", "send", "asend", "asend_repoll", "asend_repoll", "asend_cancel", "timed_cancel", "timed_opt_cancel", "timed_long"])
            ops = [{"op": "barrier", "ph": j}]
            m = nm()
            if kind == "send":
                ops.append({"op": "send", "h": 0, "m": m})
            elif kind == "asend":
                ops += [{"op": "asend_new", "h": 0, "f": 0, "m": m}, {"op": "poll", "f": 0, "w": 1}, {"op": "await", "f": 0, "w": rng.choice([1, 2])}]
            elif kind == "asend_repoll":
                # polled again with a different waker after younger waiters have registered: must keep its place
                ops += [{"op": "asend_new", "h": 0, "f": 0, "m": m}, {"op": "poll", "f": 0, "w": 1},
                        {"op": "barrier", "ph": cancel_ph}, {"op": "poll", "f": 0, "w": 2}, {"op": "await", "f": 0, "w": 3}]
            elif kind == "asend_cancel":
                ops += [{"op": "asend_new", "h": 0, "f": 0, "m": m}, {"op": "poll", "f": 0, "w": 1},
                        {"op": "barrier", "ph": cancel_ph}, {"op": "drop_fut", "f": 0}]
            elif kind == "timed_cancel":
                ops.append({"op": "send_timeout", "h": 0, "m": m, "d": 3})
            elif kind == "timed_opt_cancel":
                ops.append({"op": "send_option_timeout", "h": 0, "m": m, "d": 3})
            else:
                ops.append({"op": "send_timeout", "h": 0, "m": m, "d": 400})
            procs.append({"phase": 0, "handles": [rng.choice(["ss", "as"])], "ops": ops})
        nrecv = (capv or 0) + k
        rops = [{"op": "barrier", "ph": serve_ph}]
        f = 0
        i = 0
        while i < nrecv:
            o = rng.choice(["recv", "recv", "try_recv", "try_recv_realtime", "drain", "recv_timeout", "arecv", "stream", "iter_next"])
            if o == "recv":
                rops.append({"op": "recv", "h": 0})
            elif o in ("try_recv", "try_recv_realtime"):
                rops.append({"op": o, "h": 0})
            elif o == "iter_next":
                rops.append({"op": "iter_next", "h": 0})
            elif o == "recv_timeout":
                rops.append({"op": "recv_timeout", "h": 0, "d": 400})
            elif o == "drain":
                rops.append({"op": "drain_into", "h": 0, "pre": rng.choice([0, 0, 1]), "spare": rng.choice([0, 2, 8])})
                i += 1
            elif o == "arecv":
                rops += [{"op": "arecv_new", "h": 0, "f": f}, {"op": "await", "f": f, "w": 1}]
                f += 1
            else:
                rops.append({"op": "stream_new", "h": 0, "f": f})
                for _ in range(rng.choice([2, 3])):
                    rops.append({"op": "await", "f": f, "w": 1})
                    i += 1
                rops.append({"op": "drop_fut", "f": f})
                f += 1
            i += 1
        if serve == "drain":
            # C19: everything available is taken by one drain_into (vector states: empty, spare capacity, old contents)
            rops = [{"op": "barrier", "ph": serve_ph},
                    {"op": "drain_into", "h": 0, "pre": rng.choice([0, 0, 1, 2]), "spare": rng.choice([0, 2, 8])},
                    {"op": "try_recv", "h": 0}, {"op": "len", "h": 0}]
        procs.append({"phase": 0, "handles": [rng.choice(["sr", "ar"])], "ops": rops})
    else:
        for j in range(1, k + 1):
            kind = rng.choice(["recv", "recv", "arecv", "arecv_repoll", "arecv_repoll", "arecv_cancel", "timed_cancel", "timed_long", "stream"])
            ops = [{"op": "barrier", "ph": j}]
            if kind == "recv":
                ops.append({"op": "recv", "h": 0})
            elif kind == "arecv":
                ops += [{"op": "arecv_new", "h": 0, "f": 0}, {"op": "poll", "f": 0, "w": 1}, {"op": "await", "f": 0, "w": rng.choice([1, 2])}]
            elif kind == "stream":
                ops += [{"op": "stream_new", "h": 0, "f": 0}, {"op": "poll", "f": 0, "w": 1}, {"op": "await", "f": 0, "w": 1}, {"op": "drop_fut", "f": 0}]
            elif kind == "arecv_repoll":
                ops += [{"op": "arecv_new", "h": 0, "f": 0}, {"op": "poll", "f": 0, "w": 1},
                        {"op": "barrier", "ph": cancel_ph}, {"op": "poll", "f": 0, "w": 2}, {"op": "await", "f": 0, "w": 3}]
            elif kind == "arecv_cancel":
                ops += [{"op": "arecv_new", "h": 0, "f": 0}, {"op": "poll", "f": 0, "w": 1},
                        {"op": "barrier", "ph": cancel_ph}, {"op": "drop_fut", "f": 0}]
            elif kind == "timed_cancel":
                ops.append({"op": "recv_timeout", "h": 0, "d": 3})
            else:
                ops.append({"op": "recv_timeout", "h": 0, "d": 400})
            procs.append({"phase": 0, "handles": [rng.choice(["sr", "ar"])], "ops": ops})
        sops = [{"op": "barrier", "ph": serve_ph}]
        for _ in range(k + (capv or 0)):
            o = rng.choice(["send", "try_send", "send_timeout", "asend", "try_send_option", "try_send_realtime",
                            "try_send_option_realtime", "send_option_timeout"])
            m = nm()
            if o == "asend":
                sops += [{"op": "asend_new", "h": 0, "f": 0, "m": m}, {"op": "await", "f": 0, "w": 1}]
            elif o in ("send_timeout", "send_option_timeout"):
                sops.append({"op": o, "h": 0, "m": m, "d": 400})
            else:
                sops.append({"op": o, "h": 0, "m": m})
        procs.append({"phase": 0, "handles": [rng.choice(["ss", "as"])], "ops": sops})
    return {"cap": capv, "payload": pl, "procs": procs, "strat": {"tick_phase": cancel_ph, "q_tick": 0.0}}


def gen_integrity(rng, k, payload):
    """C04: force each transfer path (buffer, into a blocked receiver's slot, out of a blocked sender's slot, refill,
    drain) for each kind of waiter, with chosen bit patterns; k selects the pattern window."""
    path = rng.choice(["buffer", "to_receiver", "from_sender", "refill", "drain"])
    nvals = rng.choice([1, 2, 3])
    if payload == "u8":
        vals = [((k * 3 + j) % 256) for j in range(nvals)]
        vals = list(dict.fromkeys(vals))
    elif payload == "u16":
        pool = [0, 1, 255, 256, 0x7FFF, 0x8000, 0xFFFF, 0xFF00, 0x00FF, 0xAAAA, 0x5555]
        vals = list(dict.fromkeys([pool[(k + j) % len(pool)] if rng.random() < 0.5 else rng.randrange(65536) for j in range(nvals)]))
    else:
        vals = list(dict.fromkeys([rng.randrange(1, 190) for _ in range(nvals)]))
    n = len(vals)
    sflav, rflav = rng.choice(["ss", "as"]), rng.choice(["sr", "ar"])

    def send_op(m, blocking):
        o = rng.choice(["send", "send_timeout", "send_option_timeout", "asend"] if blocking else
                       ["send", "try_send", "try_send_option", "send_timeout", "asend", "try_send_realtime"])
        if o == "asend":
            return [{"op": "asend_new", "h": 0, "f": 0, "m": m}, {"op": "await", "f": 0, "w": 1}, {"op": "drop_fut", "f": 0}]
        if o in ("send_timeout", "send_option_timeout"):
            return [{"op": o, "h": 0, "m": m, "d": 400}]
        return [{"op": o, "h": 0, "m": m}]

    def recv_op(blocking):
        o = rng.choice(["recv", "recv_timeout", "arecv", "stream", "iter_next"] if blocking else
                       ["recv", "try_recv", "recv_timeout", "arecv", "try_recv_realtime", "stream"])
        if o == "arecv":
            return [{"op": "arecv_new", "h": 0, "f": 0}, {"op": "await", "f": 0, "w": 1}, {"op": "drop_fut", "f": 0}]
        if o == "stream":
            return [{"op": "stream_new", "h": 0, "f": 0}, {"op": "await", "f": 0, "w": 1}, {"op": "drop_fut", "f": 0}]
        if o == "recv_timeout":
            return [{"op": o, "h": 0, "d": 400}]
        return [{"op": o, "h": 0}]
    S, Rv = [], []
    if path == "buffer":
        cap = rng.choice([n, n + 1, None])
        for m in vals:
            S += send_op(m, False)
        Rv.append({"op": "barrier", "ph": 1})
        for _ in vals:
            Rv += recv_op(False)
    elif path == "to_receiver":
        cap = rng.choice([0, 1, None])
        for _ in vals:
            Rv += recv_op(True)
        S.append({"op": "barrier", "ph": 1})
        for m in vals:
            S += send_op(m, False)
    elif path == "from_sender":
        cap = 0
        for m in vals:
            S += send_op(m, True)
        Rv.append({"op": "barrier", "ph": 1})
        for _ in vals:
            Rv += recv_op(False)
    elif path == "refill":
        cap = 1
        S.append({"op": "try_send", "h": 0, "m": vals[0]})
        for m in vals[1:]:
            S += send_op(m, True)
        Rv.append({"op": "barrier", "ph": 1})
        for _ in vals:
            Rv += recv_op(False)
    else:
        cap = rng.choice([0, 1])
        for m in vals:
            S += send_op(m, True)
        Rv += [{"op": "barrier", "ph": 1}, {"op": "drain_into", "h": 0, "pre": 0, "spare": rng.choice([0, 4])}]
        for _ in vals:
            Rv.append({"op": "try_recv", "h": 0})
    procs = [{"phase": 0, "handles": [sflav], "ops": S}, {"phase": 0, "handles": [rflav], "ops": Rv}]
    if path == "from_sender" and n > 1 and rng.random() < 0.5:
        # several blocked senders: one process each
        procs = [{"phase": 0, "handles": [sflav], "ops": [{"op": "barrier", "ph": 0}] + send_op(m, True)} for m in vals]
        procs.append({"phase": 0, "handles": [rflav], "ops": Rv})
    return {"cap": cap, "payload": payload, "procs": procs, "strat": {"q_tick": 0.0}}


def gen_progress(rng):
    """C06: a waiter registers first and is driven through its spin phase into the park / pending state;
    the event that must release it arrives one phase later."""
    cap = rng.choice([0, 0, 1, None])
    wside = rng.choice("sr")
    if cap is None:
        wside = "r"
    wkind = rng.choice(["sync", "sync", "timed", "async", "async2", "stream"] if wside == "r" else ["sync", "sync", "timed", "async", "async2"])
    release = rng.choice(["peer", "peer", "peer_try", "peer_async", "close", "close_other", "last_drop", "drain"])
    procs = []
    pre = []
    if wside == "s" and cap:
        pre = [{"op": "try_send", "h": 0, "m": 100 + i} for i in range(cap)]
    if wside == "s":
        if wkind == "sync":
            w = pre + [{"op": "send", "h": 0, "m": 1}]
        elif wkind == "timed":
            w = pre + [{"op": rng.choice(["send_timeout", "send_option_timeout"]), "h": 0, "m": 1, "d": 400}]
        elif wkind == "async":
            w = pre + [{"op": "asend_new", "h": 0, "f": 0, "m": 1}, {"op": "await", "f": 0, "w": 1}]
        else:
            w = pre + [{"op": "asend_new", "h": 0, "f": 0, "m": 1}, {"op": "poll", "f": 0, "w": 1}, {"op": "poll", "f": 0, "w": 2}, {"op": "await", "f": 0, "w": 3}]
    else:
        if wkind == "sync":
            w = [{"op": rng.choice(["recv", "iter_next"]), "h": 0}]
        elif wkind == "timed":
            w = [{"op": "recv_timeout", "h": 0, "d": 400}]
        elif wkind == "async":
            w = [{"op": "arecv_new", "h": 0, "f": 0}, {"op": "await", "f": 0, "w": 1}]
        elif wkind == "async2":
            w = [{"op": "arecv_new", "h": 0, "f": 0}, {"op": "poll", "f": 0, "w": 1}, {"op": "poll", "f": 0, "w": 2}, {"op": "await", "f": 0, "w": 3}]
        else:
            w = [{"op": "stream_new", "h": 0, "f": 0}, {"op": "await", "f": 0, "w": 1}, {"op": "await", "f": 0, "w": 2}]
    wh = rng.choice(["s", "a"]) + wside
    nw = rng.choice([1, 1, 2])
    for i in range(nw):
        ww = json.loads(json.dumps(w))
        for o in ww:
            if "m" in o and o["m"] < 100:
                o["m"] = i + 1
            elif "m" in o:
                o["m"] += 10 * i
        procs.append({"phase": 0, "handles": [wh], "ops": ww})
    other = "r" if wside == "s" else "s"
    oh = rng.choice(["s", "a"]) + other
    b = [{"op": "barrier", "ph": 1}]
    if release in ("peer", "peer_try", "peer_async", "drain"):
        ops = list(b)
        for i in range(nw + (cap or 0 if wside == "s" else 0)):
            if other == "s":
                if release == "peer_async":
                    ops += [{"op": "asend_new", "h": 0, "f": 0, "m": 50 + i}, {"op": "await", "f": 0, "w": 1}, {"op": "drop_fut", "f": 0}]
                else:
                    ops.append({"op": "try_send" if release == "peer_try" else "send", "h": 0, "m": 50 + i})
            else:
                if release == "drain":
                    ops.append({"op": "drain_into", "h": 0, "pre": 0, "spare": 2})
                elif release == "peer_async":
                    ops += [{"op": "arecv_new", "h": 0, "f": 0}, {"op": "await", "f": 0, "w": 1}, {"op": "drop_fut", "f": 0}]
                else:
                    ops.append({"op": "try_recv" if release == "peer_try" else "recv", "h": 0})
        procs.append({"phase": 0, "handles": [oh], "ops": ops})
    elif release == "close":
        procs.append({"phase": 0, "handles": [oh], "ops": b + [{"op": "close", "h": 0}]})
    elif release == "close_other":
        procs.append({"phase": 0, "handles": [rng.choice(["s", "a"]) + wside], "ops": b + [{"op": "close", "h": 0}]})
        procs.append({"phase": 0, "handles": [oh], "ops": [{"op": "barrier", "ph": 2}]})
    else:
        procs.append({"phase": 0, "handles": [oh, oh], "ops": b + [{"op": "drop", "h": 0}, {"op": "len", "h": 1}, {"op": "drop", "h": 1}]})
    st = {"spin_bias": rng.choice([0.9, 0.995, 0.999]), "p_switch": rng.choice([0.02, 0.1, 0.5]),
          "p_spurious": rng.choice([0.0, 0.2, 0.4]), "q_tick": 0.0, "tick_phase": 3}
    return {"cap": cap, "payload": rng.choice(["w1", "b3", "h4", "u8", "u16", "p5"]), "procs": procs, "strat": st}


def gen_integrity_race(rng, k, payload):
    """C04 under a race: one waiter of any kind (a future whose next poll comes with a different waker, a parked or timed
    thread) holds / expects one value of a chosen bit pattern; the claimer of the other side arrives one phase later and is
    cut (solo freeze sweep) before each of its hooks -- in particular between taking the waiter's signal and finishing the
    copy -- while the waiter may be re-polled / woken spuriously, return, and have its storage poisoned or reused."""
    side = rng.choice("sr")
    if payload == "u8":
        v = (k * 7) % 256
    elif payload == "u16":
        v = [0, 1, 255, 256, 0x7FFF, 0x8000, 0xFFFF, 0xAAAA, 0x5555][k % 9]
    else:
        v = 1 + k % 180
    kind = rng.choice(["async_chg", "async_chg", "async_chg2", "async_cancel", "async_cancel", "sync", "timed"])
    wflav = rng.choice(["a", "a", "s"]) + side
    cflav = rng.choice(["s", "a"]) + ("r" if side == "s" else "s")
    if side == "s":
        new = {"op": "asend_new", "h": 0, "f": 0, "m": v}
        sync = {"op": "send", "h": 0, "m": v}
        timed = {"op": rng.choice(["send_timeout", "send_option_timeout"]), "h": 0, "m": v, "d": 400}
        claim = rng.choice([[{"op": "recv", "h": 0}], [{"op": "try_recv", "h": 0}], [{"op": "try_recv_realtime", "h": 0}], [{"op": "recv_timeout", "h": 0, "d": 400}],
                            [{"op": "iter_next", "h": 0}], [{"op": "arecv_new", "h": 0, "f": 0}, {"op": "await", "f": 0, "w": 1}, {"op": "drop_fut", "f": 0}],
                            [{"op": "drain_into", "h": 0, "pre": 0, "spare": 2}]])
    else:
        new = {"op": "arecv_new", "h": 0, "f": 0}
        sync = {"op": rng.choice(["recv", "iter_next"]), "h": 0}
        timed = {"op": "recv_timeout", "h": 0, "d": 400}
        claim = rng.choice([[{"op": "send", "h": 0, "m": v}], [{"op": "try_send", "h": 0, "m": v}], [{"op": "try_send_realtime", "h": 0, "m": v}],
                            [{"op": "try_send_option", "h": 0, "m": v}], [{"op": "send_timeout", "h": 0, "m": v, "d": 400}],
                            [{"op": "asend_new", "h": 0, "f": 0, "m": v}, {"op": "await", "f": 0, "w": 1}, {"op": "drop_fut", "f": 0}]])
    if kind == "async_chg":
        # the poll with a new waker happens in the race phase (while the claimer is cut somewhere inside its call)
        w = [new, {"op": "poll", "f": 0, "w": 1}, {"op": "barrier", "ph": 1}, {"op": "poll", "f": 0, "w": 2}, {"op": "await", "f": 0, "w": 3}, {"op": "drop_fut", "f": 0}]
    elif kind == "async_chg2":
        w = [new, {"op": "poll", "f": 0, "w": 1}, {"op": "poll", "f": 0, "w": 2}, {"op": "barrier", "ph": 1}, {"op": "poll", "f": 0, "w": 3}, {"op": "await", "f": 0, "w": 1},
             {"op": "drop_fut", "f": 0},
             # the slot is reused at once by the next operation of the same process
             dict(new, f=1, **({"m": 189} if side == "s" else {})), {"op": "poll", "f": 1, "w": 1}, {"op": "drop_fut", "f": 1}]
    elif kind == "async_cancel":
        # the pending future is cancelled (dropped) in the race phase, possibly while the claimer is in the middle of the copy
        w = [new, {"op": "poll", "f": 0, "w": 1}, {"op": "barrier", "ph": 1}, {"op": "drop_fut", "f": 0},
             dict(new, f=1, **({"m": 189} if side == "s" else {})), {"op": "poll", "f": 1, "w": 1}, {"op": "drop_fut", "f": 1}]
    elif kind == "sync":
        w = [sync, {"op": "len", "h": 0}]
    else:
        w = [timed, {"op": "len", "h": 0}]
    procs = [{"phase": 0, "handles": [wflav], "ops": w},
             {"phase": 0, "handles": [cflav], "ops": [{"op": "barrier", "ph": 1}] + claim}]
    return {"cap": 0, "payload": payload, "procs": procs, "strat": {"q_tick": 0.0, "spin_bias": 0.995, "p_switch": 0.1, "tick_phase": 9}}


def _waiter_ops(rng, side, kind, m, f=0):
    if side == "s":
        if kind == "sync":
            return [{"op": "send", "h": 0, "m": m}]
        if kind == "timed":
            return [{"op": rng.choice(["send_timeout", "send_option_timeout"]), "h": 0, "m": m, "d": 400}]
        if kind == "async":
            return [{"op": "asend_new", "h": 0, "f": f, "m": m}, {"op": "await", "f": f, "w": 1}]
        return [{"op": "asend_new", "h": 0, "f": f, "m": m}, {"op": "poll", "f": f, "w": 1}, {"op": "poll", "f": f, "w": 2}, {"op": "await", "f": f, "w": 3}]
    if kind == "sync":
        return [{"op": rng.choice(["recv", "iter_next"]), "h": 0}]
    if kind == "timed":
        return [{"op": "recv_timeout", "h": 0, "d": 400}]
    if kind == "async":
        return [{"op": "arecv_new", "h": 0, "f": f}, {"op": "await", "f": f, "w": 1}]
    if kind == "async2":
        return [{"op": "arecv_new", "h": 0, "f": f}, {"op": "poll", "f": f, "w": 1}, {"op": "poll", "f": f, "w": 2}, {"op": "await", "f": f, "w": 3}]
    return [{"op": "stream_new", "h": 0, "f": f}, {"op": "await", "f": f, "w": 1}]


def gen_waiters(rng):
    """C06 (and the waiting list in general): the channel first carries `warm` hand-offs, so that the waiting
    list's ring buffer has moved on from its initial position, then 2..5 waiters of one side register one after
    the other (each driven into its park / pending state), and one phase later a single event must release all
    of them: close from either side, the drop of the last handle of the other side, or enough peers."""
    cap = rng.choice([0, 0, 0, 1, 2])
    side = rng.choice("sr")
    other = "r" if side == "s" else "s"
    warm = rng.choice([0, 2, 3, 4, 5, 6, 7, 7, 8, 9, 11])
    nw = rng.choice([2, 3, 3, 4, 4, 5])
    release = rng.choice(["close", "close", "close_other", "last_drop", "last_drop", "peer"])
    procs = []
    mid = 100
    # warm-up traffic (phase 0): every hand-off on a rendezvous channel goes through the waiting list once.
    # Process 0 (waiting side) becomes the first waiter afterwards, process 1 (other side) the releaser.
    wside_h = rng.choice(["s", "a"]) + side
    other_h = rng.choice(["s", "a"]) + other
    wa, wb = [], []
    for i in range(warm):
        r = {"op": rng.choice(["recv", "recv", "recv_timeout"]), "h": 0, "d": 400}
        w = {"op": rng.choice(["send", "send", "send_timeout"]), "h": 0, "m": mid + i, "d": 400}
        (wa if side == "r" else wb).append(r)
        (wb if side == "r" else wa).append(w)
    # on a buffered channel the waiting senders need a full buffer
    fill = [{"op": "barrier", "ph": 1}] + [{"op": "try_send", "h": 0, "m": 150 + i} for i in range(cap)] if side == "s" else []
    kinds = ["sync", "sync", "timed", "async", "async2"] + (["stream"] if side == "r" else [])
    for i in range(nw):
        ops = [{"op": "barrier", "ph": 2 + i}] + _waiter_ops(rng, side, rng.choice(kinds), i + 1)
        if i == 0:
            procs.append({"phase": 0, "handles": [wside_h], "ops": wa + fill + ops})
        else:
            procs.append({"phase": 0, "handles": [wside_h], "ops": ops})
    rel_ph = 2 + nw
    b = [{"op": "barrier", "ph": rel_ph}]
    if release == "close":
        rel = b + [{"op": "close", "h": 0}]
    elif release == "close_other":
        rel = b + [{"op": "close", "h": 1}]
    elif release == "last_drop":
        rel = b + [{"op": "drop", "h": 2}, {"op": "len", "h": 0}, {"op": "drop", "h": 0}]
    else:
        rel = list(b)
        n = nw + (cap if side == "s" else 0)
        for i in range(n):
            if other == "s":
                rel.append({"op": rng.choice(["send", "try_send", "try_send_realtime", "send_timeout"]), "h": 0, "m": 50 + i, "d": 400})
            else:
                rel.append({"op": rng.choice(["recv", "try_recv", "try_recv_realtime", "recv_timeout"]), "h": 0, "d": 400})
    hs = [other_h, wside_h, other_h]
    procs.insert(1, {"phase": 0, "handles": hs, "ops": wb + rel})
    st = {"spin_bias": rng.choice([0.9, 0.995, 0.999]), "p_switch": rng.choice([0.02, 0.1, 0.5]),
          "p_spurious": rng.choice([0.0, 0.0, 0.2]), "q_tick": 0.0, "tick_phase": rel_ph + 2}
    return {"cap": cap, "payload": rng.choice(["w1", "b3", "h4", "u8", "u16", "p5"]), "procs": procs, "strat": st}


TRY_SEND = ["try_send", "try_send_option", "try_send_realtime", "try_send_option_realtime"]
TRY_RECV = ["try_recv", "try_recv_realtime", "drain_into"]


def gen_trystate(rng):
    """C14: the channel is first put into one of its qualitatively different states (empty, partly filled, full,
    a parked receiver, a parked sender, closed with or without buffered messages, all receivers gone, all senders
    gone), then a process issues every non-blocking operation once, in random order, alone."""
    cap = rng.choice([0, 1, 2, 2, None])
    state = rng.choice(["empty", "part", "full", "rwait", "swait", "closed", "closed_buf", "norecv", "norecv_buf", "nosend", "nosend_buf"])
    flav_s = rng.choice(["ss", "as"])
    flav_r = rng.choice(["sr", "ar"])
    nbuf = 0 if not cap and cap is not None else (rng.choice([1, 2]) if cap is None else cap)
    procs = []
    setup = []           # by the process that keeps both handles (phase 0)
    if state in ("part", "closed_buf", "norecv_buf", "nosend_buf") and nbuf:
        k = 1 if state == "part" else rng.randrange(1, nbuf + 1)
        setup += [{"op": "try_send", "h": 0, "m": 100 + i} for i in range(k)]
    if state == "full" and nbuf:
        setup += [{"op": "try_send", "h": 0, "m": 100 + i} for i in range(nbuf)]
    if state == "swait":
        setup += [{"op": "try_send", "h": 0, "m": 100 + i} for i in range(cap or 0)]
    if state in ("closed", "closed_buf"):
        setup.append({"op": "close", "h": rng.choice([0, 1])})
    # the acting process holds handles [s, r] (and spare ones to drop)
    hs = [flav_s, flav_r]
    if state in ("norecv", "norecv_buf"):
        setup.append({"op": "drop", "h": 1})
    if state in ("nosend", "nosend_buf"):
        setup.append({"op": "drop", "h": 0})
    ops = []
    tries = []
    if state not in ("nosend", "nosend_buf"):
        tries += [{"op": o, "h": 0, "m": 10 + i, **({"none": 1} if "option" in o and rng.random() < 0.15 else {})} for i, o in enumerate(TRY_SEND)]
    if state not in ("norecv", "norecv_buf"):
        for o in TRY_RECV:
            if o == "drain_into":
                tries.append({"op": o, "h": 1, "pre": rng.choice([0, 1]), "spare": rng.choice([0, 2, 8])})
            else:
                tries.append({"op": o, "h": 1})
    tries += [{"op": "len", "h": 0 if state not in ("nosend", "nosend_buf") else 1}]
    rng.shuffle(tries)
    if rng.random() < 0.5:
        tries = tries + json.loads(json.dumps(tries[:3]))
        for i, o in enumerate(tries[-3:]):
            if "m" in o:
                o["m"] = 30 + i
    procs.append({"phase": 0, "handles": hs, "ops": setup + [{"op": "barrier", "ph": 2}] + tries})
    if state == "rwait":
        w = _waiter_ops(rng, "r", rng.choice(["sync", "timed", "async", "async2"]), 0)
        procs.append({"phase": 0, "handles": [flav_r], "ops": [{"op": "barrier", "ph": 1}] + w})
    if state == "swait":
        w = _waiter_ops(rng, "s", rng.choice(["sync", "timed", "async", "async2"]), 1)
        procs.append({"phase": 0, "handles": [flav_s], "ops": [{"op": "barrier", "ph": 1}] + w})
    st = {"spin_bias": 0.995, "p_switch": 0.1, "q_tick": 0.0, "tick_phase": 9}
    return {"cap": cap, "payload": rng.choice(["w1", "b3", "h4", "u8", "p5", "z0"]), "procs": procs, "strat": st}


DISC_KINDS_S = ["repoll", "repoll2", "sync", "timed", "timed_exp_to", "timed_exp_opt"]
DISC_KINDS_R = ["repoll", "repoll2", "sync", "timed", "timed_exp_to", "stream"]
DISC_EVENTS = ["last_drop", "last_drop2", "close", "close_same"]


def disc_combos():
    return [(sd, k, ev) for sd in "sr" for k in (DISC_KINDS_S if sd == "s" else DISC_KINDS_R) for ev in DISC_EVENTS]


def gen_discrace(rng, combo=None):
    """C11 / C10: operations that are already waiting (parked, timed, or pending futures about to be polled again with
    a different waker) race with the event that disconnects or closes the channel: the waiters' next step and the
    drop of the last handle of the other side / close() start in the same phase (used under a freeze sweep, so that
    every cut point of the waiter's re-poll or wake-up path meets the complete disconnecting critical section)."""
    cap = rng.choice([0, 0, 1, 2])
    side = combo[0] if combo else rng.choice("ssr")
    other = "r" if side == "s" else "s"
    nw = rng.choice([1, 1, 2])
    event = combo[2] if combo else rng.choice(["last_drop", "last_drop", "last_drop2", "close", "close_same"])
    wside_h = rng.choice(["s", "a"]) + side
    other_h = rng.choice(["s", "a"]) + other
    procs = []
    expiring = [False]
    for i in range(nw):
        kind = rng.choice(["repoll", "repoll", "repoll2", "sync", "timed", "timed_exp", "timed_exp", "stream"] if side == "r"
                          else ["repoll", "repoll", "repoll2", "sync", "timed", "timed_exp", "timed_exp"])
        if combo and i == 0:
            kind = combo[1]
        topt = None
        if kind.startswith("timed_exp"):
            topt = {"timed_exp_to": "send_timeout", "timed_exp_opt": "send_option_timeout"}.get(kind)
            kind = "timed_exp"
            expiring[0] = True
        m = i + 1
        pre = []
        if side == "s" and i == 0:
            pre = [{"op": "try_send", "h": 0, "m": 100 + j} for j in range(cap)]
        new = {"op": "asend_new", "h": 0, "f": 0, "m": m} if side == "s" else {"op": "arecv_new", "h": 0, "f": 0}
        if kind == "repoll":
            ops = [new, {"op": "poll", "f": 0, "w": 1}, {"op": "barrier", "ph": 1}, {"op": "poll", "f": 0, "w": 2}, {"op": "await", "f": 0, "w": 3}]
        elif kind == "repoll2":
            ops = [new, {"op": "poll", "f": 0, "w": 1}, {"op": "poll", "f": 0, "w": 2}, {"op": "barrier", "ph": 1}, {"op": "poll", "f": 0, "w": 1},
                   {"op": "poll", "f": 0, "w": 3}, {"op": "await", "f": 0, "w": 3}]
        elif kind == "stream":
            ops = [{"op": "stream_new", "h": 0, "f": 0}, {"op": "poll", "f": 0, "w": 1}, {"op": "barrier", "ph": 1}, {"op": "poll", "f": 0, "w": 2},
                   {"op": "await", "f": 0, "w": 3}]
        elif kind == "sync":
            ops = [{"op": "send", "h": 0, "m": m}] if side == "s" else [{"op": rng.choice(["recv", "iter_next"]), "h": 0}]
        else:
            # timed_exp: the deadline expires in the race phase (the clock only ticks from phase 1 on, then on every read)
            d = 2 if kind == "timed_exp" else 400
            ops = [{"op": topt or rng.choice(["send_timeout", "send_option_timeout"]), "h": 0, "m": m, "d": d}] if side == "s" else [{"op": "recv_timeout", "h": 0, "d": d}]
        procs.append({"phase": 0, "handles": [wside_h], "ops": pre + ops})
    b = [{"op": "barrier", "ph": 1}]
    if event == "last_drop":
        procs.append({"phase": 0, "handles": [other_h], "ops": b + [{"op": "drop", "h": 0}]})
    elif event == "last_drop2":
        procs.append({"phase": 0, "handles": [other_h, other_h], "ops": b + [{"op": "drop", "h": 0}, {"op": "drop", "h": 1}]})
    elif event == "close":
        procs.append({"phase": 0, "handles": [other_h], "ops": b + [{"op": "close", "h": 0}]})
    else:
        procs.append({"phase": 0, "handles": [wside_h, other_h], "ops": b + [{"op": "close", "h": 0}]})
    st = {"spin_bias": 0.995, "p_switch": rng.choice([0.05, 0.2]), "q_tick": 0.0, "tick_phase": 9}
    if expiring[0]:
        st.update({"tick_phase": 1, "tick_after": 0})
    return {"cap": cap, "payload": rng.choice(["w1", "b3", "h4", "u8", "p5"]), "procs": procs, "strat": st}


PAIR_OPS_S = [
    [{"op": "send", "h": 0, "m": 0}], [{"op": "try_send", "h": 0, "m": 0}], [{"op": "try_send_option", "h": 0, "m": 0}],
    [{"op": "try_send_realtime", "h": 0, "m": 0}], [{"op": "try_send_option_realtime", "h": 0, "m": 0}],
    [{"op": "send_timeout", "h": 0, "m": 0, "d": 0}], [{"op": "send_timeout", "h": 0, "m": 0, "d": 400}],
    [{"op": "send_option_timeout", "h": 0, "m": 0, "d": 400}],
    [{"op": "asend_new", "h": 0, "f": 0, "m": 0}, {"op": "poll", "f": 0, "w": 1}, {"op": "poll", "f": 0, "w": 2}, {"op": "drop_fut", "f": 0}],
    [{"op": "asend_new", "h": 0, "f": 0, "m": 0}, {"op": "poll", "f": 0, "w": 1}, {"op": "await", "f": 0, "w": 2}],
    [{"op": "close", "h": 0}], [{"op": "drop", "h": 0}], [{"op": "clone", "h": 0}], [{"op": "clone_sync", "h": 0}], [{"op": "clone_async", "h": 0}],
    [{"op": "len", "h": 0}], [{"op": "is_closed", "h": 0}], [{"op": "is_disconnected", "h": 0}], [{"op": "is_full", "h": 0}],
]
PAIR_OPS_R = [
    [{"op": "recv", "h": 1}], [{"op": "try_recv", "h": 1}], [{"op": "try_recv_realtime", "h": 1}], [{"op": "iter_next", "h": 1}],
    [{"op": "recv_timeout", "h": 1, "d": 0}], [{"op": "recv_timeout", "h": 1, "d": 400}],
    [{"op": "drain_into", "h": 1, "pre": 0, "spare": 0}], [{"op": "drain_into", "h": 1, "pre": 1, "spare": 4}],
    [{"op": "arecv_new", "h": 1, "f": 1}, {"op": "poll", "f": 1, "w": 1}, {"op": "poll", "f": 1, "w": 2}, {"op": "drop_fut", "f": 1}],
    [{"op": "arecv_new", "h": 1, "f": 1}, {"op": "poll", "f": 1, "w": 1}, {"op": "await", "f": 1, "w": 2}],
    [{"op": "stream_new", "h": 1, "f": 1}, {"op": "poll", "f": 1, "w": 1}, {"op": "poll", "f": 1, "w": 2}, {"op": "drop_fut", "f": 1}],
    [{"op": "close", "h": 1}], [{"op": "drop", "h": 1}], [{"op": "clone", "h": 1}], [{"op": "clone_sync", "h": 1}], [{"op": "clone_async", "h": 1}],
    [{"op": "len", "h": 1}], [{"op": "is_terminated", "h": 1}], [{"op": "is_disconnected", "h": 1}], [{"op": "is_empty", "h": 1}],
    [{"op": "sender_count", "h": 1}], [{"op": "receiver_count", "h": 1}],
]


def gen_pair(rng):
    """C03 (atomicity) base scenario for the one-preemption sweep: the channel is put into one of its qualitative states
    by a set-up process (phase 0/1), then two processes each issue ONE call (any of the API, either side) in the same
    phase, followed by observers.  Under the freeze sweep one of the two is frozen before its k-th hook for every k while
    the other runs its call to the end: every cut point of every call meets every complete other call."""
    cap = rng.choice([0, 1, 1, 2, None])
    state = rng.choice(["empty", "empty", "part", "full", "rwait", "swait", "closed", "norecv_buf", "nosend_buf", "rwait2", "swait2"])
    fs, fr = rng.choice(["ss", "as"]), rng.choice(["sr", "ar"])
    nbuf = 0 if cap == 0 else (rng.choice([1, 2]) if cap is None else cap)
    setup = []
    if state in ("part", "norecv_buf", "nosend_buf") and nbuf:
        setup += [{"op": "try_send", "h": 0, "m": 100 + i} for i in range(1 if state == "part" else nbuf)]
    if state in ("full", "swait", "swait2") and cap is not None:
        setup += [{"op": "try_send", "h": 0, "m": 100 + i} for i in range(cap)]
    if state == "closed":
        setup.append({"op": "close", "h": 0})
    setup.append({"op": "barrier", "ph": 4})
    procs = []
    ops = PAIR_OPS_S + PAIR_OPS_R
    m = [0]

    def inst(o):
        o = json.loads(json.dumps(o))
        for x in o:
            if "m" in x:
                m[0] += 1
                x["m"] = m[0]
        return o
    obs = [{"op": "len", "h": 0}, {"op": "try_recv", "h": 1}]
    a, b = inst(rng.choice(ops)), inst(rng.choice(ops))
    # a process whose last handle of a side is needed by a later op keeps it: ops on a dropped handle are skipped by the interpreter
    procs.append({"phase": 0, "handles": [fs, fr], "ops": [{"op": "barrier", "ph": 3}] + a + obs})
    procs.append({"phase": 0, "handles": [rng.choice(["ss", "as"]), rng.choice(["sr", "ar"])], "ops": [{"op": "barrier", "ph": 3}] + b + obs})
    hs = [fs, fr]
    if state == "norecv_buf":
        # every receiver must go: the two actors' receive handles too
        for pr in procs:
            pr["ops"] = [{"op": "drop", "h": 1}] + pr["ops"]
        setup = setup[:-1] + [{"op": "drop", "h": 1}, {"op": "barrier", "ph": 4}]
    if state == "nosend_buf":
        for pr in procs:
            pr["ops"] = [{"op": "drop", "h": 0}] + pr["ops"]
        setup = setup[:-1] + [{"op": "drop", "h": 0}, {"op": "barrier", "ph": 4}]
    procs.append({"phase": 0, "handles": hs, "ops": setup})
    nwait = 2 if state.endswith("2") else 1
    if state.startswith("rwait") and state != "norecv_buf":
        for i in range(nwait):
            procs.append({"phase": 0, "handles": [fr], "ops": [{"op": "barrier", "ph": 1 + i}] + _waiter_ops(rng, "r", rng.choice(["sync", "timed", "async", "async2"]), 0)})
    if state.startswith("swait") and cap is not None:
        for i in range(nwait):
            procs.append({"phase": 0, "handles": [fs], "ops": [{"op": "barrier", "ph": 1 + i}] + _waiter_ops(rng, "s", rng.choice(["sync", "timed", "async", "async2"]), 50 + i)})
    st = {"spin_bias": 0.995, "p_switch": 0.1, "q_tick": 0.0, "tick_phase": 9}
    return {"cap": cap, "payload": rng.choice(["w1", "b3", "h4", "u8", "p5"]), "procs": procs, "strat": st}


def gen_spincond(rng):
    """C17: the back-off loop spin_cond driven with a scripted condition (false K times, then true), reported parallelism 1 and 16;
    K reaches several million so that the geometric back-off goes through more than 20 doublings."""
    if rng.random() < 0.3:
        par = 1
        ks = [rng.choice([0, 1, 2, 3, 5, 17, 100, 250]) for _ in range(rng.choice([1, 2, 3]))]
    else:
        par = 16
        pool = [0, 1, 2, 3, 4, 5, 11, 12, 13, 27, 28, 29, 75, 76, 77, 171, 172, 173, 1000, 6123, 6124, 6125, 100000, 1572859, 1572860, 1572861,
                2000000, 3145725, 3145726, 3145727, 3145728, 4000000, 6291452, 6291453, 7000001, 12582908, 13000000, 26000000]
        ks = [rng.choice(pool) if rng.random() < 0.8 else rng.randrange(0, 30000000) for _ in range(rng.choice([1, 2, 3]))]
    return {"mutex": True, "execs": 1, "procs": [{"phase": 0, "ops": [{"op": "spin_cond", "K": k} for k in ks]}],
            "strat": {"parallelism": par, "max_steps": 20000}}


def gen_lockhold(rng, combo=None):
    """C13 (and the lock discipline of every blocking call): a timed operation is waiting, its deadline expires in the race
    phase, and exactly then a third party is somewhere inside an unrelated call on the same channel -- possibly inside its
    critical section, holding the channel lock (solo freeze sweep over the third party; lock attempts that fail are executed)."""
    timed = combo[0] if combo else rng.choice(["send_timeout", "send_option_timeout", "recv_timeout"])
    third = combo[1] if combo else rng.choice(["len", "is_full", "clone", "try_send", "try_recv", "sender_count", "drop_spare", "is_closed"])
    cap = rng.choice([0, 1])
    side = "r" if timed == "recv_timeout" else "s"
    procs = []
    pre = [{"op": "try_send", "h": 0, "m": 100 + j} for j in range(cap)] if side == "s" else []
    w = {"op": timed, "h": 0, "d": 2}
    if side == "s":
        w["m"] = 1
    # the waiter also holds a handle of the other side, so that the channel stays connected whatever the third party drops
    procs.append({"phase": 0, "handles": [rng.choice(["s", "a"]) + side, "sr" if side == "s" else "ss"], "ops": pre + [w, {"op": "len", "h": 0}]})
    b = [{"op": "barrier", "ph": 1}]
    hs = ["ss", "sr", "ss"]
    t = {"len": [{"op": "len", "h": 0}], "is_full": [{"op": "is_full", "h": 1}], "clone": [{"op": "clone", "h": 1}],
         "try_send": [{"op": "try_send", "h": 0, "m": 50}] if side == "s" else [{"op": "len", "h": 0}],
         "try_recv": [{"op": "try_recv", "h": 1}] if side == "r" else [{"op": "len", "h": 1}],
         "sender_count": [{"op": "sender_count", "h": 1}], "drop_spare": [{"op": "drop", "h": 2}], "is_closed": [{"op": "is_closed", "h": 0}]}[third]
    procs.append({"phase": 0, "handles": hs, "ops": b + t + [{"op": "barrier", "ph": 2}]})
    st = {"spin_bias": 0.995, "p_switch": 0.1, "q_tick": 0.0, "tick_phase": 1, "tick_after": 0, "lockspin_all": 1}
    return {"cap": cap, "payload": rng.choice(["w1", "b3", "u8"]), "procs": procs, "strat": st}


def lockhold_combos():
    return [(t, o) for t in ("send_timeout", "send_option_timeout", "recv_timeout")
            for o in ("len", "is_full", "clone", "try_send", "try_recv", "sender_count", "drop_spare", "is_closed")]


LOCKBUSY_ACTORS = {
    "drain": [[{"op": "drain_into", "h": 1, "pre": 0, "spare": 0}], [{"op": "drain_into", "h": 1, "pre": 1, "spare": 8}],
              [{"op": "drain_into", "h": 1, "pre": 0, "spare": 1}]],
    "try": [[{"op": "try_recv", "h": 1}], [{"op": "try_send", "h": 0, "m": 60}], [{"op": "try_send_option", "h": 0, "m": 60}],
            [{"op": "drain_into", "h": 1, "pre": 0, "spare": 0}]],
    "block": [[{"op": "recv", "h": 1}], [{"op": "send", "h": 0, "m": 60}], [{"op": "recv_timeout", "h": 1, "d": 400}],
              [{"op": "send_timeout", "h": 0, "m": 60, "d": 400}], [{"op": "iter_next", "h": 1}], [{"op": "len", "h": 1}], [{"op": "close", "h": 0}]],
}
LOCKBUSY_THIRD = ["len", "is_full", "clone", "sender_count", "is_closed", "try_send_full", "drop_spare"]


def gen_lockbusy(rng, actor, third):
    """A call that has everything it needs (values buffered, room for a send) is issued while a third party is somewhere inside
    an unrelated call on the same channel, possibly holding the channel lock (solo freeze sweep over the third party;
    `lockspin_all`: lock attempts that fail are executed).  A blocking acquisition waits for the lock and then gives the same
    result; only the *_realtime variants may answer 'not done'."""
    cap = 3
    fill = [{"op": "try_send", "h": 0, "m": 100 + j} for j in range(2)]      # 2 of 3 places used: receives and sends both succeed
    a = json.loads(json.dumps(actor))
    t = {"len": [{"op": "len", "h": 0}], "is_full": [{"op": "is_full", "h": 1}], "clone": [{"op": "clone", "h": 1}],
         "sender_count": [{"op": "sender_count", "h": 1}], "is_closed": [{"op": "is_closed", "h": 0}],
         "try_send_full": [{"op": "is_empty", "h": 1}], "drop_spare": [{"op": "drop", "h": 2}]}[third]
    procs = [{"phase": 0, "handles": [rng.choice(["ss", "as"]), rng.choice(["sr", "ar"])], "ops": fill + [{"op": "barrier", "ph": 1}] + a + [{"op": "len", "h": 0 if a[0]["op"] != "close" else 1}]},
             {"phase": 0, "handles": ["ss", "sr", "ss"], "ops": [{"op": "barrier", "ph": 1}] + t + [{"op": "barrier", "ph": 2}]}]
    st = {"spin_bias": 0.995, "p_switch": 0.1, "q_tick": 0.0, "tick_phase": 9, "lockspin_all": 1}
    return {"cap": cap, "payload": rng.choice(["w1", "b3", "u8"]), "procs": procs, "strat": st}


def gen_casrace(rng, combo=None):
    """A sync / timed waiter is cut exactly before one of its atomic read-modify-write steps on its own signal (the
    LOCKED -> LOCKED_STARVATION compare_exchange that precedes parking) while the event that completes or terminates it runs to
    the end; or the completing thread is cut before its compare_exchange / final store on the waiter's signal."""
    side, wkind, event = combo if combo else (rng.choice("sr"), rng.choice(["sync", "timed"]), rng.choice(["close", "last_drop", "peer", "peer_try"]))
    cap = rng.choice([0, 1]) if side == "s" else 0
    other = "r" if side == "s" else "s"
    pre = [{"op": "try_send", "h": 0, "m": 100 + j} for j in range(cap)] if side == "s" else []
    if side == "s":
        w = {"op": "send", "h": 0, "m": 1} if wkind == "sync" else {"op": rng.choice(["send_timeout", "send_option_timeout"]), "h": 0, "m": 1, "d": 400}
    else:
        w = {"op": rng.choice(["recv", "iter_next"]), "h": 0} if wkind == "sync" else {"op": "recv_timeout", "h": 0, "d": 400}
    procs = [{"phase": 0, "handles": [rng.choice(["s", "a"]) + side], "ops": pre + [w, {"op": "len", "h": 0}]}]
    oh = rng.choice(["s", "a"]) + other
    if event == "close":
        ev = [{"op": "close", "h": 0}]
    elif event == "last_drop":
        ev = [{"op": "drop", "h": 0}]
    elif event == "peer":
        ev = [{"op": "recv", "h": 0}] if other == "r" else [{"op": "send", "h": 0, "m": 50}]
    else:
        ev = [{"op": "try_recv", "h": 0}] if other == "r" else [{"op": "try_send", "h": 0, "m": 50}]
    # no barrier: under the solo freeze the waiter runs alone up to its cut point (it has registered by then), then the event runs
    procs.append({"phase": 0, "handles": [oh], "ops": ev})
    st = {"spin_bias": 0.995, "p_switch": 0.1, "q_tick": 0.0, "tick_phase": 9, "p_spurious": 0.0}
    return {"cap": cap, "payload": rng.choice(["w1", "b3", "u8"]), "procs": procs, "strat": st}


def casrace_combos():
    return [(sd, wk, ev) for sd in "sr" for wk in ("sync", "timed") for ev in ("close", "last_drop", "peer", "peer_try")]


HANDLE_PAIR_OPS = [("clone", "s"), ("clone", "r"), ("clone_sync", "s"), ("clone_sync", "r"), ("clone_async", "s"), ("clone_async", "r"),
                   ("drop", "s"), ("drop", "r"), ("close", "s"), ("close", "r"), ("to_sync", "s"), ("to_async", "r"),
                   ("sender_count", "s"), ("receiver_count", "r"), ("is_closed", "s")]


def gen_handlepair(rng, a=None, b=None):
    """C12: two processes each issue ONE handle operation (clone of any flavour, convert, drop, close, count) of either side in
    the same phase, then every count observer; under the solo freeze sweep one of them is cut before each of its hooks (for
    instance between two critical sections of a clone) while the other runs its operation to the end."""
    a = a or rng.choice(HANDLE_PAIR_OPS)
    b = b or rng.choice(HANDLE_PAIR_OPS)
    cap = rng.choice([0, 1, None])
    procs = []
    for (op, sd) in (a, b):
        fl = [rng.choice(["ss", "as"]), rng.choice(["sr", "ar"])]
        obs = [{"op": o, "hs": x} for x in "sr" for o in ("sender_count", "receiver_count", "is_closed")]
        procs.append({"phase": 0, "handles": fl, "ops": [{"op": "barrier", "ph": 1}, {"op": op, "hs": sd}, {"op": "barrier", "ph": 2}] + obs})
    # a third process keeps one handle of each side alive and observes at the end
    procs.append({"phase": 0, "handles": ["ss", "sr"], "ops": [{"op": "barrier", "ph": 2}] + [{"op": o, "h": 0} for o in ("sender_count", "receiver_count", "is_closed")]
                  + [{"op": "close", "h": 1}, {"op": "sender_count", "h": 0}]})
    st = {"spin_bias": 0.995, "p_switch": 0.1, "q_tick": 0.0, "tick_phase": 9}
    return {"cap": cap, "payload": "w1", "procs": procs, "strat": st}


def gen_waiters_timed(rng):
    """C13: after warm-up traffic (the waiting list's ring buffer has moved on), several timed waiters of one side register one
    after the other; the ones registered LATER have the SHORTER deadline, nobody serves them, and the clock starts ticking only
    once all are listed: each short one must report Timeout by itself (cancelling from the middle / the wrapped part of the list)."""
    cap = rng.choice([0, 0, 1, 2])
    side = rng.choice("sr")
    warm = rng.choice([0, 3, 5, 6, 7, 7, 8, 9])
    nw = rng.choice([2, 3, 3, 4])
    wa, wb = [], []
    for i in range(warm):
        r = {"op": "recv", "h": 0}
        w = {"op": "send", "h": 0, "m": 100 + i}
        (wa if side == "r" else wb).append(r)
        (wb if side == "r" else wa).append(w)
    fill = [{"op": "barrier", "ph": 1}] + [{"op": "try_send", "h": 0, "m": 150 + i} for i in range(cap)] if side == "s" else []
    procs = []
    for i in range(nw):
        d = 400 if i == 0 else 3
        if side == "s":
            op = {"op": rng.choice(["send_timeout", "send_option_timeout"]), "h": 0, "m": i + 1, "d": d}
        else:
            op = {"op": "recv_timeout", "h": 0, "d": d}
        ops = [{"op": "barrier", "ph": 2 + i}, op, {"op": "len", "h": 0}]
        procs.append({"phase": 0, "handles": ["s" + side], "ops": (wa + fill + ops) if i == 0 else ops})
    other = "r" if side == "s" else "s"
    procs.insert(1, {"phase": 0, "handles": ["s" + other, "s" + side], "ops": wb + [{"op": "barrier", "ph": 3 + nw}]})
    st = {"spin_bias": 0.995, "p_switch": 0.1, "q_tick": 0.0, "tick_phase": 2 + nw, "tick_after": 0}
    # nobody serves or closes before the short deadlines (3 ticks): every short timed waiter of this scenario must report Timeout
    # (process indices after the insertion of the traffic process at position 1; the long waiter, process 0, may legitimately
    # be released by the disconnect at the end)
    expect = [i + 1 for i in range(1, nw)]
    return {"cap": cap, "payload": rng.choice(["w1", "b3", "u8"]), "procs": procs, "strat": st, "expect_timeout": expect}


def gen_termrace(rng):
    """C03: an observer of 'terminated' (receiver or stream) races with the only sender buffering a value and going away."""
    cap = rng.choice([1, 2, None])
    obs = rng.choice(["stream", "stream", "recv"])
    if obs == "stream":
        o = [{"op": "stream_new", "h": 0, "f": 0}, {"op": "barrier", "ph": 1}, {"op": "stream_is_terminated", "f": 0}, {"op": "poll", "f": 0, "w": 1},
             {"op": "stream_is_terminated", "f": 0}, {"op": "drop_fut", "f": 0}]
    else:
        o = [{"op": "barrier", "ph": 1}, {"op": "is_terminated", "h": 0}, {"op": "try_recv", "h": 0}, {"op": "is_terminated", "h": 0}]
    sender = [{"op": "barrier", "ph": 1}, {"op": rng.choice(["try_send", "send", "try_send_realtime"]), "h": 0, "m": 7}, {"op": "drop", "h": 0}]
    procs = [{"phase": 0, "handles": [rng.choice(["sr", "ar"])], "ops": o}, {"phase": 0, "handles": [rng.choice(["ss", "as"])], "ops": sender}]
    st = {"spin_bias": 0.995, "p_switch": 0.1, "q_tick": 0.0, "tick_phase": 9}
    return {"cap": cap, "payload": "w1", "procs": procs, "strat": st}


def gen_mutex(rng, freeze=False):
    """C17: 2..4 threads contend on the raw lock through lock / try_lock / unlock with accesses to a monitored cell."""
    n = rng.choice([2, 3, 3, 4])
    procs = []
    for _ in range(n):
        ops = []
        for _ in range(rng.choice([1, 2, 3])):
            ops.append({"op": rng.choice(["lock", "lock", "try_lock"])})
            for _ in range(rng.choice([0, 1, 2])):
                ops.append({"op": rng.choice(["write", "write", "read"])})
            ops.append({"op": "unlock"})
        procs.append({"phase": 0, "ops": ops})
    st = {"parallelism": rng.choice([1, 16]), "p_switch": rng.choice([0.2, 0.5, 1.0])}
    if freeze:
        st["freeze"] = [rng.randrange(n), rng.randrange(1, 14)]
    return {"mutex": True, "procs": procs, "strat": st}


def seq_alphabet():
    """Single-thread call alphabet for C18: each item is a short list of harness ops standing for one API call
    (a future is created and polled once in one item). Handle 0 is a sender, handle 1 a receiver."""
    A = []
    for o in ("send", "try_send", "try_send_option", "try_send_realtime", "try_send_option_realtime"):
        A.append([{"op": o, "h": 0, "m": 0}])
    A.append([{"op": "send_timeout", "h": 0, "m": 0, "d": 0}])
    A.append([{"op": "send_option_timeout", "h": 0, "m": 0, "d": 0}])
    A.append([{"op": "asend_new", "h": 0, "f": 0, "m": 0}, {"op": "poll", "f": 0, "w": 1}])
    for o in ("recv", "try_recv", "try_recv_realtime", "iter_next"):
        A.append([{"op": o, "h": 1}])
    A.append([{"op": "recv_timeout", "h": 1, "d": 0}])
    A.append([{"op": "drain_into", "h": 1, "pre": 0, "spare": 0}])
    A.append([{"op": "drain_into", "h": 1, "pre": 1, "spare": 0}])
    A.append([{"op": "drain_into", "h": 1, "pre": 0, "spare": 4}])
    A.append([{"op": "arecv_new", "h": 1, "f": 1}, {"op": "poll", "f": 1, "w": 1}])
    A.append([{"op": "stream_new", "h": 1, "f": 2}, {"op": "poll", "f": 2, "w": 1}])
    for f in (0, 1, 2):
        A.append([{"op": "poll", "f": f, "w": 2}])
        A.append([{"op": "drop_fut", "f": f}])
    A.append([{"op": "stream_is_terminated", "f": 2}])
    for h in (0, 1):
        for o in ("clone", "clone_sync", "clone_async", "to_sync", "to_async", "drop", "close"):
            A.append([{"op": o, "h": h}])
        for o in OBS:
            A.append([{"op": o, "h": h}])
    A.append([{"op": "is_terminated", "h": 1}])
    return A


def seq_core_alphabet():
    """State-changing calls only, one representative per behaviour class (used for deeper exhaustive sequences)."""
    A = []
    for o in ("send", "try_send"):
        A.append([{"op": o, "h": 0, "m": 0}])
    A.append([{"op": "send_timeout", "h": 0, "m": 0, "d": 0}])
    A.append([{"op": "asend_new", "h": 0, "f": 0, "m": 0}, {"op": "poll", "f": 0, "w": 1}])
    for o in ("recv", "try_recv", "try_recv_realtime"):
        A.append([{"op": o, "h": 1}])
    A.append([{"op": "recv_timeout", "h": 1, "d": 0}])
    A.append([{"op": "drain_into", "h": 1, "pre": 0, "spare": 0}])
    A.append([{"op": "arecv_new", "h": 1, "f": 1}, {"op": "poll", "f": 1, "w": 1}])
    A.append([{"op": "stream_new", "h": 1, "f": 2}, {"op": "poll", "f": 2, "w": 1}])
    for f in (0, 1, 2):
        A.append([{"op": "poll", "f": f, "w": 2}])
    A.append([{"op": "drop_fut", "f": 0}])
    A.append([{"op": "drop_fut", "f": 1}])
    A.append([{"op": "clone", "h": 0}])
    A.append([{"op": "drop", "h": 0}])
    A.append([{"op": "drop", "h": 1}])
    A.append([{"op": "close", "h": 1}])
    return A


OBS_SUFFIX = ([{"op": o, "hs": sd} for sd in "sr" for o in ("len", "is_full", "is_empty", "sender_count", "receiver_count",
                                                              "is_closed", "is_disconnected")]
              + [{"op": "is_terminated", "hs": "r"}, {"op": "poll", "f": 0, "w": 2}, {"op": "poll", "f": 1, "w": 2},
                 {"op": "try_send", "hs": "s", "m": 0}, {"op": "try_recv", "hs": "r"}, {"op": "try_recv", "hs": "r"},
                 {"op": "len", "hs": "r"}])


def gen_seq_core(length, caps, flav="ss", payload="w1"):
    """All sequences of `length` state-changing calls, each followed by an observing suffix."""
    import itertools
    A = seq_core_alphabet()
    for cap in caps:
        for combo in itertools.product(range(len(A)), repeat=length):
            yield seq_program([A[i] for i in combo] + [[o] for o in OBS_SUFFIX], cap, flav, payload)


def seq_program(items, cap, flav, payload="w1"):
    ops = []
    m = 0
    for it in items:
        for o in it:
            o = dict(o)
            if "m" in o:
                m += 1
                o["m"] = m
            ops.append(o)
    return {"cap": cap, "payload": payload, "execs": 1,
            "procs": [{"phase": 0, "handles": [flav[0] + "s", flav[1] + "r"], "ops": ops}]}


def gen_seq_exhaustive(length, caps, flavs=("ss",), payload="w1"):
    import itertools
    A = seq_alphabet()
    for cap in caps:
        for flav in flavs:
            for combo in itertools.product(range(len(A)), repeat=length):
                yield seq_program([A[i] for i in combo], cap, flav, payload)


def gen_seq_random(rng, n, lengths=(4, 5, 6, 8)):
    A = seq_alphabet()
    for _ in range(n):
        k = rng.choice(lengths)
        yield seq_program([rng.choice(A) for _ in range(k)], rng.choice([0, 1, 2, None]),
                          rng.choice(["ss", "aa", "sa", "as"]), rng.choice(["w1", "b3", "h4", "p5", "u8", "z0"]))


def gen_seq_futs(caps=(0, 1, 2), ks=(3, 4), flavs=("aa",)):
    """Single-threaded sequences with several pending futures of one side (the only way one thread can build a
    waiting list of length >= 2): k futures are created and polled, every ordered choice of 1..2 of them is
    cancelled (dropped), then the other side serves what is left with a rotating variant and every surviving future
    is polled again; an observing suffix follows."""
    import itertools
    nvar = 0
    for cap in caps:
        for flav in flavs:
            for side in "sr":
                for k in ks:
                    for ncancel in (1, 2):
                        for cancel in itertools.permutations(range(k), ncancel):
                            nvar += 1
                            ops = []
                            m = 0
                            if side == "s":
                                for _ in range(cap):
                                    m += 1
                                    ops.append({"op": "try_send", "h": 0, "m": m})
                                for f in range(k):
                                    m += 1
                                    ops += [{"op": "asend_new", "h": 0, "f": f, "m": m}, {"op": "poll", "f": f, "w": 1}]
                            else:
                                for f in range(k):
                                    if f == 1 and nvar % 3 == 0:
                                        ops += [{"op": "stream_new", "h": 1, "f": f}, {"op": "poll", "f": f, "w": 1}]
                                    else:
                                        ops += [{"op": "arecv_new", "h": 1, "f": f}, {"op": "poll", "f": f, "w": 1}]
                            for c in cancel:
                                ops.append({"op": "drop_fut", "f": c})
                            left = [f for f in range(k) if f not in cancel]
                            # serve: one call of the other side per survivor (+ the buffer), polling as we go
                            if side == "s":
                                rv = [{"op": "try_recv", "h": 1}, {"op": "try_recv_realtime", "h": 1}, {"op": "recv_timeout", "h": 1, "d": 0},
                                      {"op": "recv", "h": 1}, {"op": "iter_next", "h": 1}]
                                if nvar % 4 == 0:
                                    ops.append({"op": "drain_into", "h": 1, "pre": 0, "spare": 0})
                                else:
                                    for i in range(cap + 1):
                                        ops.append(dict(rv[(nvar + i) % len(rv)]))
                                for f in left:
                                    ops.append({"op": "poll", "f": f, "w": 2})
                                if nvar % 4 != 0:
                                    for i in range(len(left) - 1):
                                        ops.append(dict(rv[(nvar + i + 1) % len(rv)]))
                                        if i % 2 == 1:
                                            ops += [{"op": "poll", "f": f, "w": 2} for f in left]
                            else:
                                sv = [{"op": "try_send", "h": 0}, {"op": "try_send_realtime", "h": 0}, {"op": "send_timeout", "h": 0, "d": 0},
                                      {"op": "send", "h": 0}, {"op": "try_send_option", "h": 0}]
                                for i in range(len(left)):
                                    m += 1
                                    o = dict(sv[(nvar + i) % len(sv)])
                                    o["m"] = m
                                    ops.append(o)
                                    if i == 0:
                                        ops += [{"op": "poll", "f": f, "w": 2} for f in left]
                            ops += [{"op": "poll", "f": f, "w": 2} for f in left]
                            ops += [{"op": "len", "h": 1}, {"op": "try_recv", "h": 1}, {"op": "try_send", "h": 0, "m": m + 1}, {"op": "try_recv", "h": 1},
                                    {"op": "len", "h": 0}]
                            yield {"cap": cap, "payload": ["w1", "b3", "h4", "u8"][nvar % 4], "execs": 1,
                                   "procs": [{"phase": 0, "handles": [flav[0] + "s", flav[1] + "r"], "ops": ops}]}


def gen_seq_hidden(caps=(2, 3), depth=3, flavs=("ss", "aa")):
    """Single-threaded sequences aimed at the channel's *hidden* state (the lazily flipped recv_blocking flag, a buffer that
    is neither empty nor full after traffic): a prefix of traffic (fill, partial receive, a served pending future, ...)
    followed by every sequence of `depth` calls of one side over all its variants (timed calls with zero duration, futures
    polled once), then an observing suffix."""
    import itertools
    SV = [[{"op": "try_send", "h": 0, "m": 0}], [{"op": "try_send_option", "h": 0, "m": 0}], [{"op": "try_send_realtime", "h": 0, "m": 0}],
          [{"op": "send_timeout", "h": 0, "m": 0, "d": 0}], [{"op": "send_option_timeout", "h": 0, "m": 0, "d": 0}],
          [{"op": "asend_new", "h": 0, "f": 0, "m": 0}, {"op": "poll", "f": 0, "w": 1}, {"op": "drop_fut", "f": 0}]]
    RV = [[{"op": "try_recv", "h": 1}], [{"op": "try_recv_realtime", "h": 1}], [{"op": "recv_timeout", "h": 1, "d": 0}],
          [{"op": "drain_into", "h": 1, "pre": 0, "spare": 0}],
          [{"op": "arecv_new", "h": 1, "f": 1}, {"op": "poll", "f": 1, "w": 1}, {"op": "drop_fut", "f": 1}]]
    S, R = [{"op": "try_send", "h": 0, "m": 0}], [{"op": "try_recv", "h": 1}]
    PEND_R = [{"op": "arecv_new", "h": 1, "f": 2}, {"op": "poll", "f": 2, "w": 1}]
    PEND_S = [{"op": "asend_new", "h": 0, "f": 3, "m": 0}, {"op": "poll", "f": 3, "w": 1}]
    n = 0
    for cap in caps:
        prefixes = {
            "fill_recv1": [S] * cap + [R],                                  # receive leaves the buffer non-empty, nobody parked
            "fill_recvall": [S] * cap + [R] * cap,
            "recv_on_empty_then_fill": [R, S],
            "pending_recv_served": [PEND_R, S, [{"op": "poll", "f": 2, "w": 1}, {"op": "drop_fut", "f": 2}], S],
            "pending_send_served": [S] * cap + [PEND_S, R, [{"op": "poll", "f": 3, "w": 1}, {"op": "drop_fut", "f": 3}]],
            "pending_recv_cancelled": [PEND_R, [{"op": "drop_fut", "f": 2}], S],
            "pending_send_cancelled": [S] * cap + [PEND_S, [{"op": "drop_fut", "f": 3}], R],
        }
        for flav in flavs:
            for pname, pre in prefixes.items():
                for side, V in (("s", SV), ("r", RV)):
                    for combo in itertools.product(range(len(V)), repeat=depth):
                        items = [x if isinstance(x, list) else [x] for x in pre] + [V[i] for i in combo] + [[o] for o in OBS_SUFFIX]
                        n += 1
                        yield seq_program(items, cap, flav, ["w1", "b3", "u8"][n % 3])


def gen_seq_fill(ns=(31, 32, 33, 63, 64, 65), caps=(None, 70)):
    """Single-threaded long histories: N values are buffered (N around the sizes at which an unbounded channel's ring buffer
    grows), then every send variant is called once, then observers and a drain: an unbounded channel (and a bounded one with
    room) never refuses."""
    SV = [{"op": "try_send", "h": 0}, {"op": "try_send_option", "h": 0}, {"op": "try_send_realtime", "h": 0}, {"op": "try_send_option_realtime", "h": 0},
          {"op": "send_timeout", "h": 0, "d": 0}, {"op": "send_option_timeout", "h": 0, "d": 0}, {"op": "send", "h": 0}]
    k = 0
    for cap in caps:
        for n in ns:
            for first in range(len(SV)):
                k += 1
                items = [[dict(SV[(j + first) % 4], m=0)] for j in range(n)]
                items += [[dict(SV[(first + j) % len(SV)], m=0)] for j in range(len(SV))]
                items += [[{"op": "len", "h": 0}], [{"op": "is_full", "h": 0}], [{"op": "drain_into", "h": 1, "pre": 0, "spare": 0}], [{"op": "len", "h": 1}],
                          [{"op": "try_recv", "h": 1}]]
                yield seq_program(items, cap, ["ss", "aa"][k % 2], ["w1", "b3", "u8"][k % 3])


HANDLE_MUT = ["clone", "clone_sync", "clone_async", "to_sync", "to_async", "drop", "drop_old"]


def handle_seq_programs(length, flavs=("ss", "aa", "sa", "as"), caps=(1,), prefill=(0, 1)):
    """All sequences of `length` handle-changing calls (clone / clone_sync / clone_async / to_* / drop of the newest or
    oldest handle, on either side, plus close), each followed by an observing suffix on whatever handles are left."""
    import itertools
    muts = [(o, sd) for o in HANDLE_MUT for sd in "sr"] + [("close", "s"), ("close", "r")]
    nvar = [0]
    for cap in caps:
        for flav in flavs:
            for pre in prefill:
                for combo in itertools.product(muts, repeat=length):
                    ops = [{"op": "try_send", "hs": "s", "m": i + 1} for i in range(pre)]
                    for o, sd in combo:
                        if o == "drop_old":
                            ops.append({"op": "drop", "hso": sd})
                        else:
                            ops.append({"op": o, "hs": sd})
                    for sd in "sr":
                        for o in ("sender_count", "receiver_count", "is_closed", "is_disconnected"):
                            ops.append({"op": o, "hs": sd})
                    # the first value-taking call after the handle operations rotates over all receive variants
                    nvar[0] += 1
                    first = [{"op": "try_recv", "hs": "r"}, {"op": "try_recv_realtime", "hs": "r"}, {"op": "recv_timeout", "hs": "r", "d": 0},
                             {"op": "drain_into", "hs": "r", "pre": 0, "spare": 0}, {"op": "iter_next", "hs": "r"},
                             {"op": "arecv_new", "hs": "r", "f": 0}][nvar[0] % 6]
                    ops += [{"op": "is_terminated", "hs": "r"}, first]
                    if first["op"] == "arecv_new":
                        ops += [{"op": "poll", "f": 0, "w": 1}, {"op": "drop_fut", "f": 0}]
                    snd = [{"op": "try_send", "hs": "s", "m": 9}, {"op": "try_send_realtime", "hs": "s", "m": 9},
                           {"op": "send_timeout", "hs": "s", "m": 9, "d": 0}, {"op": "try_send_option", "hs": "s", "m": 9}][nvar[0] % 4]
                    ops += [{"op": "try_recv", "hso": "r"}, snd, {"op": "try_recv", "hs": "r"}]
                    yield {"cap": cap, "payload": "w1", "execs": 1,
                           "procs": [{"phase": 0, "handles": [flav[0] + "s", flav[1] + "r"], "ops": ops}]}


def main():
    import argparse
    ap = argparse.ArgumentParser()
    ap.add_argument("--profile", default="general")
    ap.add_argument("--n", type=int, default=100)
    ap.add_argument("--seed", type=int, default=1)
    ap.add_argument("--payload", default=None)
    a = ap.parse_args()
    rng = random.Random(a.seed)
    for _ in range(a.n):
        print(json.dumps(gen_program(rng, a.profile, a.payload)))


if __name__ == "__main__":
    main()
