#!/bin/bash
# Ordering-weakening matrix on the real code: each release / acquire of the Signal hand-off and of the lock is weakened to Relaxed
# (one at a time, in a vp-run snapshot of the repository, never in /repo); the C07 (signal.rs) or C17 (mutex.rs) quick check must
# report a VIOLATION.  usage (through vp run --with-repo): tools/ordering_matrix.sh
cd "$(dirname "$0")/.."
[ -n "$VP_RUN_REPO" ] || { echo "needs a vp run --with-repo snapshot"; exit 2; }
sed -i "s#path = \"/repo\"#path = \"$VP_RUN_REPO\"#" harness/Cargo.toml
R=$VP_RUN_REPO
miss=0
run() { # file line from to prop
  sed -i "$2s/$3/$4/" $R/src/$1
  if git -C $R diff --quiet; then echo "$1:$2 no change"; return; fi
  ./check $5 --tier quick > ord_$1_$2.log 2>&1
  n=$(grep -c "^VIOLATION" ord_$1_$2.log); d=$(grep -c "^DRIFT: the code uses" ord_$1_$2.log)
  echo "$1:$2 $3 -> $4 vs $5: violations=$n ordering-drift=$d $( [ $n -gt 0 ] && echo CAUGHT || echo MISSED )"
  [ $n -gt 0 ] || miss=$((miss+1))
  git -C $R checkout -- .
}
for l in 60 93 102 113 128 135 172 183; do run signal.rs $l "Ordering::Acquire" "Ordering::Relaxed" C07; done
run signal.rs 148 "Ordering::Release" "Ordering::Relaxed" C07
run signal.rs 149 "Ordering::Acquire" "Ordering::Relaxed" C07
run signal.rs 153 "Ordering::Acquire" "Ordering::Relaxed" C07
run signal.rs 188 "Ordering::Acquire" "Ordering::Relaxed" C07
run signal.rs 243 "Ordering::Release, Ordering::Acquire" "Ordering::Relaxed, Ordering::Acquire" C07
run signal.rs 243 "Ordering::Release, Ordering::Acquire" "Ordering::Release, Ordering::Relaxed" C07
run signal.rs 247 "Ordering::Release" "Ordering::Relaxed" C07
run signal.rs 256 "Ordering::Release" "Ordering::Relaxed" C07
run mutex.rs 36 "Ordering::Acquire, Ordering::Relaxed" "Ordering::Relaxed, Ordering::Relaxed" C17
run mutex.rs 42 "Ordering::Release" "Ordering::Relaxed" C17
echo "missed=$miss"
