#!/usr/bin/env python3
"""Regenerates the as-built per-property table of DESIGN.md (between the BEGIN/END markers) from tools/plan.py."""
import os, re, sys
sys.path.insert(0, os.path.dirname(os.path.abspath(__file__)))
import plan
V = os.path.dirname(os.path.dirname(os.path.abspath(__file__)))
rows = ["| id | TLC configurations (spec) | real-execution runs: profile (programs q/t x executions q/t) -> oracles | extra stages |",
        "|---|---|---|---|"]
for pid in sorted(plan.PLANS):
    p = plan.PLANS[pid]
    mc = ", ".join((m["cfg"][1] or m["cfg"][0]).replace(".cfg", "") for m in p.get("mc", []))
    runs = []
    for r in p["runs"]:
        o = []
        if r.get("monitor"):
            o.append("L0:" + r["monitor"])
        if r.get("l1"):
            o.append("L1" + ("(all owned)" if r.get("own_all") else ""))
        for m, _ in r.get("rawmon", []):
            o.append(m)
        n = "fn" if r.get("programs_fn") else "%d/%d x %d/%d" % (r["n"][0], r["n"][1], r["execs"][0], r["execs"][1])
        runs.append("%s (%s) -> %s" % (r["profile"], n, "+".join(o)))
    extra = []
    if p.get("l2", True):
        extra.append("L2 conformance (KanalTrace, 4 capacities, drift escalation)")
    if p.get("spec_l1l0"):
        extra.append("L1-simulated histories through the L0 monitors and the L1 validator")
    if p.get("spec_l2l1"):
        extra.append("L2-simulated behaviours as API histories through the L1 validator and the L0 monitors")
    if p.get("spec_replay"):
        extra.append("spec->impl replay of simulated Kanal.tla behaviours")
    rows.append("| %s | %s | %s | %s |" % (pid, mc, "; ".join(runs), "; ".join(extra)))
table = "\n".join(rows)
path = os.path.join(V, "DESIGN.md")
s = open(path).read()
b, e = "<!-- BEGIN AS-BUILT TABLE -->", "<!-- END AS-BUILT TABLE -->"
if b in s:
    s = s[:s.index(b) + len(b)] + "\n" + table + "\n" + s[s.index(e):]
    open(path, "w").write(s)
    print("table updated (%d properties)" % len(plan.PLANS))
else:
    print(table)
