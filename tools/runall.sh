#!/bin/bash
# runs every registered quick (or $1) check once, summarises
tier=${1:-quick}
cd /verif
for p in C01 C02 C03 C04 C05 C06 C07 C08 C09 C10 C11 C12 C13 C14 C15 C16 C17 C18 C19; do
  s=$(date +%s)
  ./check $p --tier $tier --no-build > work/runall_$p.log 2>&1; rc=$?
  e=$(date +%s)
  echo "$p rc=$rc $((e-s))s $(grep -c DRIFT work/runall_$p.log) drift $(grep -c VIOLATION work/runall_$p.log) viol $(grep -c NOTE work/runall_$p.log) notes"
done
