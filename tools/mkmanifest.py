#!/usr/bin/env python3
"""Regenerates /verif/MANIFEST.json from the table below (keeps the file consistent with the plans)."""
import json, os, subprocess, sys
sys.path.insert(0, os.path.dirname(os.path.abspath(__file__)))
import plan

V = os.path.dirname(os.path.dirname(os.path.abspath(__file__)))
props = [json.loads(l) for l in open(os.path.join(V, "properties.jsonl"))]
hooks = subprocess.run("git -C /repo log --format=%h --grep='^verif hooks'", shell=True, capture_output=True, text=True).stdout.split()

TEXT = {
 "C01": ("TLC decides exactly-once on the specifications (L2 Kanal.tla invariants Once/NoLeak, L1 KanalAtomic) for all interleavings of the registered small configurations; every recorded real execution (tagged, drop-reporting payloads of every size class, controlled schedules) is validated by TLC against the L0 monitor C01 of KanalHistory.tla (value supplied by a non-failed send, returned once, nothing accepted vanishes) and against the ideal channel L1.", "3.3, 6 C01"),
 "C02": ("TLC decides FIFO on L2/L1 for the registered configurations; real histories of 2 producers x 3 tagged messages with mixed consumers (recv/try_recv/drain/stream/futures), capacities 0-2 and withheld consumers are validated by TLC against the L0 monitor C02 (real-time precedence form of the statement, including sends seen blocked at a quiescent point and the order inside one drain).", "6 C02"),
 "C03": ("Every recorded real history over the whole API (<=4 threads) must be linearizable to the ideal channel L1 (KanalAtomicTrace: TLC searches the linearization points; results, values, counts, drops, wake-ups and deadlines must all be explained). Any unexplained record is a violation.", "3.2, 4.3, 6 C03"),
 "C05": ("Drop accounting: TLC validates every real history against the L0 monitor C05 (each created value destroyed exactly once by the end, never twice, never garbage; Option variants keep the value exactly on failure) and against L1's drop obligations (who must destroy what before returning).", "6 C05"),
 "C08": ("Capacity: L0 monitor C08 on real histories with withheld receivers (successful sends minus values taken by receives already begun <= n at every successful send; len <= n; unbounded never refuses or blocks) plus L1 validation of try_send / len / is_full results.", "6 C08"),
 "C10": ("Close: L0 monitor C10 on real histories with close racing every kind of operation (one successful close; calls begun after it returned fail with the closed error, deliver nothing, read zero counts) plus L1 validation (waiters released with an error, buffered values destroyed inside the close call).", "6 C10"),
 "C11": ("Disconnect: L0 monitor C11 (no disconnect error while a handle of the other side surely existed during the whole call) plus L1 validation of histories with clone/drop of both flavours interleaved with blocked, buffered and in-flight operations.", "6 C11"),
 "C12": ("Handle counts: L0 monitor C12 plus L1 validation (exact sender_count/receiver_count/is_closed results under clone / clone_sync / clone_async / to_* / as_* / drop / close sequences and interleavings).", "6 C12"),
 "C13": ("Timed operations under a virtual clock advanced at arbitrary hook points: L0 monitor C13 (timeout never before the deadline, only the three outcome classes) plus L1 validation (all-or-nothing, value dropped once / handed back, nothing left in the waiting list) and stuck detection (a deadline that passed must be reported).", "6 C13"),
 "C04": ("Payload integrity: TLC checks the hand-off protocol of Kanal.tla (a slot is read only after it was written and published; invariants Once / asserts on slot contents) and every real execution over all eight payload classes (zero-sized, over-aligned zero-sized, u8, u16, 4-byte, pointer-sized, 3-word, padded repr(C)) on forced transfer paths (buffer, into a blocked receiver's slot, out of a blocked sender's slot, refill, drain; sync / timed / async / stream waiters) is validated against the L0 monitor C04 and L1: every received value is bit-for-bit a value that was sent (checksum-tagged ids; all 256 u8 patterns, boundary and random u16 patterns).", "6 C04, 8"),
 "C06": ("Progress: TLC checks NoStuck / LatestWoken / LockHolderRuns on Kanal.tla (spin, LOCKED->LOCKED_STARVATION, park with spurious returns, claim, wake, close, last-handle drop, both flavours) and SpinMutex liveness; on the real code a waiter is driven through its spin phase into park / pending, the releasing event arrives one phase later (peer of either flavour, drain, close from either side, last-handle drop; reported parallelism 1 and 16; spurious unparks), and an execution that ends with an operation stuck, or whose history the ideal channel cannot explain (completed by the epilogue close instead of by its peer, wrong waker woken), is a violation.", "6 C06"),
 "C07": ("Hand-off memory safety: HBMonitor.tla (vector-clock happens-before over the orderings actually passed to the atomics, FastTrack-style race check on every non-atomic cell: payload slots, pointer cells, thread-handle cell, waker field; lifetime: the owner's return or drop is a write to its frame / future; waker reference counts) is run by TLC over the memory-event trace of every real execution, including a freeze sweep that stops the claiming thread before each of its hooks while parked owners are woken spuriously and run to their return. Kanal.tla's NoAccessToDeadSignal / ListedAreArmed are checked by TLC on the design.", "3.5, 6 C07"),
 "C09": ("Interchangeable flavours: programs assigning sync / async independently to every endpoint, with to_sync / to_async / as_* views / clone_sync / clone_async conversions, validated against the union of the L0 monitors and against L1 (counts under conversions, cross-flavour hand-offs and wake-ups); TLC checks the mixed-flavour configuration of Kanal.tla.", "6 C09"),
 "C14": ("Non-blocking operations: the hook-level monitor NonBlocking.tla (a try_ / drain_into call never parks and never waits on a signal of its own; a *_realtime call makes at most one lock attempt, never yields, and reports 'not done' when that attempt fails) is run by TLC over real traces, including runs where a peer is frozen at its k-th hook (possibly inside a critical section); truthfulness of the results is decided against L1; Kanal.tla invariants TryNeverWaits / LockHolderRuns by TLC.", "6 C14"),
 "C15": ("Dropping futures: programs dropping send / receive futures and streams in every state (never polled, pending, claimed by a peer, completed) against peers of both flavours, plus ordered-waiter scenarios where a future in the middle of the waiting list is dropped; validated against the delivery and destruction clauses (L0 monitor C15) and L1 (cancelled entry leaves the list, other waiters keep their order, value delivered once or destroyed once).", "6 C15"),
 "C16": ("Polling contract: programs with spurious polls and waker changes between polls (3 wakers), polls after completion and repeated waits on one stream; L0 monitor C16 (completed future panics, stream keeps reporting the end) and L1 (Pending only while incomplete or in flight, Ready value is the delivered one, the waker registered at completion is the one woken before the completing call returns) plus stuck detection for awaits; Kanal.tla LatestWoken by TLC.", "6 C16"),
 "C17": ("The lock: SpinMutex.tla (mutual exclusion, lock returns only when held, try_lock is one step, release/acquire visibility as knowledge bits, progress under weak fairness) checked by TLC; hook-level traces of 2-4 real threads contending on kanal's RawMutexLock (reported parallelism 1 and 16, holder frozen at every hook) validated against SpinMutexTrace.tla (outcome and orderings of every compare_exchange / store) and HBMonitor.tla (accesses to the protected cell race-free).", "3.4, 6 C17"),
 "C18": ("The reference model is L1 (KanalAtomic.tla); TLC explores its single-process graph (MC_KanalAtomic_1p) and every single-thread call sequence up to the length bound over the full 58-call alphabet (both flavours, sends, receives, try_, zero-duration timed calls, single polls of futures and stream, clone/convert/drop, close, drain with different vectors, all observers) x capacities {0,1,2,unbounded} is executed on the real code and validated call by call against L1 (deterministic: any differing result or undocumented panic is rejected).", "6 C18"),
 "C19": ("drain_into: L1 validation of every drain result in real histories (vector = previous contents + buffer + blocked/pending senders oldest first, exact count, senders released with success, closed => nothing taken).", "6 C19"),
}
NOTE = "Bounded: small programs (<=4 processes, <=5 calls each), capacities {0,1,2,3,unbounded}; schedules sampled by a seeded controlled scheduler (all interleavings only in the TLC part); SC interleavings at hook granularity; trusted: TLC, the shim, the harness."

checks = []
for p in props:
    pid = p["id"]
    if pid in plan.PLANS and pid in TEXT:
        checks.append(dict(
            property_id=pid,
            quick_cmd="./check %s --tier quick" % pid,
            thorough_cmd="./check %s --tier thorough" % pid,
            evidence_file="/verif/evidence/%s.json" % pid,
            replay_cmd_template="./check %s --replay {path}" % pid,
            engine="tla-trace-validation",
            level_claimed=dict(category="model_checking", text=TEXT[pid][0], design_ref="DESIGN.md section " + TEXT[pid][1]),
            level_note=NOTE,
            technique="TLA+ specification checked by TLC + TLC trace validation of real executions (controlled scheduler, cfg-guarded hooks)",
        ))
claimed = {c["property_id"] for c in checks}
NA = {"C20": "trait-bound fact decided by the type checker; there is no state or transition to specify and no trace can show that a program which must not compile would have compiled (DESIGN.md section 8)"}
na = [dict(property_id=p["id"], reason=NA.get(p["id"], "check under construction in this session: specification part exists, binding not registered yet")) for p in props if p["id"] not in claimed]
m = dict(
    version=1,
    setup_cmd="cd /verif/harness && cargo build --release 2>&1 | tail -3 && cd /verif/spec && for f in KanalAtomic KanalAtomicTrace KanalHistory; do tla-sany $f.tla >/dev/null || exit 1; done",
    hooks=dict(guard="kanal_verif", enable="--cfg kanal_verif via /verif/harness/.cargo/config.toml (path dependency on /repo, rebuilt by every check)",
               baseline_off_cmd="cd /repo && cargo test --workspace --no-fail-fast --offline", source_commits=hooks, add_only=True),
    engines=[dict(name="tla-trace-validation", path="/verif/check", serves_properties=sorted(claimed),
                  kind_free_text="TLA+ specs in /verif/spec checked with TLC; real executions from /verif/harness validated by TLC trace specifications")],
    checks=checks,
    notes="See DESIGN.md. Genuine defects found and repaired are listed in known_findings.json (fixed entries suppress nothing).",
    not_applicable=na)
json.dump(m, open(os.path.join(V, "MANIFEST.json"), "w"), indent=1)
print("claimed:", sorted(claimed))
